"""C10 — validate() depends only on its current arguments, not on process history.

(B) as the property prescribes: a long-lived worker process executes a history of validate()/shacl_rules() calls over shared
    graph objects (with edits between calls, earlier calls failing at every pipeline stage); a one-shot worker process executes
    only the last call on equal inputs; verdict, report graph (isomorphism) and report text must be equal.  Around every call
    the named global state is snapshotted: a failed call must leave rdflib.NORMALIZE_LITERALS, the xsd:boolean parser and the
    registry of custom SPARQL functions as it found them.
(A) the global state after each call predicted by Impl `History.step` vs the snapshot taken in the worker.
"""
import os
import json
import random
import subprocess
import sys

PFX = """@prefix sh: <http://www.w3.org/ns/shacl#> . @prefix ex: <http://ex.test/> . @prefix xsd: <http://www.w3.org/2001/XMLSchema#> .
@prefix rdfs: <http://www.w3.org/2000/01/rdf-schema#> .
"""
DECL = """ex:decl sh:declare [ sh:prefix "ex" ; sh:namespace "http://ex.test/"^^xsd:anyURI ] .
"""

DATA = PFX + """ex:a a ex:C ; ex:p 1 ; ex:q "x" . ex:b a ex:C ; ex:p 1, 2 . ex:c a ex:D ; ex:flag true , "1"^^xsd:boolean .
ex:E rdfs:subClassOf ex:C . ex:e a ex:E ; ex:p 1 ; ex:q "y" .
"""
SHAPES_BASIC = PFX + """ex:S a sh:NodeShape ; sh:targetClass ex:C ; sh:property [ sh:path ex:p ; sh:maxCount 1 ; sh:minCount 1 ] ;
  sh:property [ sh:path ex:q ; sh:minCount 1 ] .
ex:B a sh:NodeShape ; sh:targetClass ex:D ; sh:property [ sh:path ex:flag ; sh:hasValue true ] .
ex:K a sh:NodeShape ; sh:targetNode ex:e ; sh:class ex:C .
ex:Pt a sh:NodeShape ; sh:targetNode ex:e ; sh:property [ sh:path ex:q ; sh:pattern "^Y" ] .
"""
SHAPES_FN = PFX + DECL + """
ex:twice a sh:SPARQLFunction ; sh:parameter [ sh:path ex:op1 ; sh:datatype xsd:integer ] ; sh:returnType xsd:integer ;
  sh:prefixes ex:decl ; sh:select "SELECT ($op1 * 2 AS ?r) WHERE {}" .
ex:isC a sh:SPARQLFunction ; sh:parameter [ sh:path ex:op1 ] ; sh:returnType xsd:boolean ;
  sh:prefixes ex:decl ; sh:ask "ASK { $op1 a ex:C }" .
ex:S a sh:NodeShape ; sh:targetClass ex:C ;
  sh:sparql [ sh:prefixes ex:decl ; sh:message "p doubled is large" ;
     sh:select "SELECT $this ?value WHERE { $this ex:p ?value . FILTER (ex:twice(?value) > 3) }" ] ;
  sh:rule [ a sh:TripleRule ; sh:subject sh:this ; sh:predicate ex:seen ; sh:object true ] .
"""
SHAPES_FN_BADRULE = SHAPES_FN + """
ex:S sh:rule [ a sh:SPARQLRule ; sh:prefixes ex:decl ; sh:construct "CONSTRUCT { $this ex:x ?y } WHERE { $this ex:p ?y . FILTER (ex:nope(?y)) " ] .
"""
SHAPES_CC = PFX + DECL + """
ex:MaxLenCC a sh:ConstraintComponent ; sh:parameter [ sh:path ex:maxLen ] ;
  sh:validator ex:maxLenValidator .
ex:maxLenValidator a sh:SPARQLAskValidator ; sh:prefixes ex:decl ; sh:message "too long" ;
  sh:ask "ASK { FILTER (STRLEN(STR($value)) <= $maxLen) }" .
ex:S a sh:NodeShape ; sh:targetClass ex:C ; sh:property [ sh:path ex:q ; ex:maxLen 3 ] .
"""
SHAPES_EXPR = PFX + DECL + """
ex:S a sh:NodeShape ; sh:targetClass ex:C ; sh:expression [ ex:isD ( sh:this ) ] ; sh:property [ sh:path ex:p ; sh:maxCount 1 ] .
ex:isD a sh:SPARQLFunction ; sh:parameter [ sh:path ex:op1 ] ; sh:returnType xsd:boolean ; sh:prefixes ex:decl ; sh:ask "ASK { $op1 a ex:D }" .
"""
SHAPES_FNONLY = PFX + DECL + """
ex:twice a sh:SPARQLFunction ; sh:parameter [ sh:path ex:op1 ; sh:datatype xsd:integer ] ; sh:returnType xsd:integer ;
  sh:prefixes ex:decl ; sh:select "SELECT ($op1 * 2 AS ?r) WHERE {}" .
ex:S a sh:NodeShape ; sh:targetClass ex:C ; sh:property [ sh:path ex:p ; sh:maxCount 1 ] .
"""
SHAPES_CALLS_UNDECLARED = PFX + DECL + """
ex:S a sh:NodeShape ; sh:targetClass ex:C ;
  sh:sparql [ sh:prefixes ex:decl ; sh:message "doubled is large" ;
     sh:select "SELECT $this ?value WHERE { $this ex:p ?value . FILTER (ex:twice(?value) > 3) }" ] .
"""
BAD_TTL = "@prefix broken"
SHAPES_SHAPELOAD = PFX + "ex:S a sh:NodeShape ; sh:path ex:p ; sh:targetClass ex:C .\n"
SHAPES_CONSTRLOAD = PFX + "ex:S a sh:NodeShape ; sh:targetClass ex:C ; sh:minCount 1 .\n"
SHAPES_BADSPARQL = PFX + DECL + 'ex:S a sh:NodeShape ; sh:targetClass ex:C ; sh:sparql [ sh:prefixes ex:decl ; sh:select "SELECT $this WHERE { $this ex:p ?v . MINUS { $this ex:q ?w } }" ] .\n'
SHAPES_META_BAD = PFX + 'ex:S a sh:NodeShape ; sh:targetClass ex:C ; sh:property [ sh:path ex:p ; sh:minCount "one" ] .\n'
ONT = PFX + "ex:D rdfs:subClassOf ex:C . ex:C a rdfs:Class .\n"


def g(name):
    return {"g": name}


CALLS = {
    # name: (step template, model call tokens: shapesGiven ontGiven advanced functions fail)
    "ok_basic": ({"op": "validate", "data": g("d"), "shapes": g("s_basic"), "kw": {}}, (1, 0, 0, [], "-")),
    "ok_basic_rdfs": ({"op": "validate", "data": g("d"), "shapes": g("s_basic"), "ont": g("o"), "kw": {"inference": "rdfs"}}, (1, 1, 0, [], "-")),
    "ok_fn": ({"op": "validate", "data": g("d"), "shapes": g("s_fn"), "kw": {"advanced": True}}, (1, 0, 1, ["twice", "isC"], "-")),
    "ok_cc": ({"op": "validate", "data": g("d"), "shapes": g("s_cc"), "kw": {}}, (1, 0, 0, [], "-")),
    "ok_rules": ({"op": "rules", "data": g("d"), "shapes": g("s_fn"), "kw": {}}, (1, 0, 1, ["twice", "isC"], "-")),
    "ok_expr_adv": ({"op": "validate", "data": g("d"), "shapes": g("s_expr"), "kw": {"advanced": True}}, (1, 0, 1, ["isD"], "-")),
    "ok_expr_nonadv": ({"op": "validate", "data": g("d"), "shapes": g("s_expr"), "kw": {}}, (1, 0, 0, [], "-")),
    "ok_rules_fnonly": ({"op": "rules", "data": g("d"), "shapes": g("s_fnonly"), "kw": {}}, (1, 0, 1, ["twice"], "-")),
    "ok_calls_undeclared": ({"op": "validate", "data": g("d"), "shapes": g("s_undeclared"), "kw": {}}, (1, 0, 0, [], "-")),
    "ok_embedded": ({"op": "validate", "data": g("d_embedded"), "kw": {}}, (0, 0, 0, [], "-")),
    "fail_data": ({"op": "validate", "data": {"text": BAD_TTL}, "shapes": g("s_basic"), "kw": {}}, (1, 0, 0, [], "data")),
    "fail_shapes": ({"op": "validate", "data": g("d"), "shapes": {"text": BAD_TTL}, "kw": {}}, (1, 0, 0, [], "shapes")),
    "fail_shapes_rules": ({"op": "rules", "data": g("d"), "shapes": {"text": BAD_TTL}, "kw": {}}, (1, 0, 1, [], "shapes")),
    "fail_ont": ({"op": "validate", "data": g("d"), "shapes": g("s_basic"), "ont": {"text": BAD_TTL}, "kw": {}}, (1, 1, 0, [], "ont")),
    "fail_meta": ({"op": "validate", "data": g("d"), "shapes": g("s_meta_bad"), "kw": {"meta_shacl": True}}, (1, 0, 0, [], "meta")),
    "fail_shapeload": ({"op": "validate", "data": g("d"), "shapes": g("s_shapeload"), "kw": {}}, (1, 0, 0, [], "build")),
    "fail_constrload": ({"op": "validate", "data": g("d"), "shapes": g("s_constrload"), "kw": {}}, (1, 0, 0, [], "validate")),
    "fail_badsparql": ({"op": "validate", "data": g("d"), "shapes": g("s_badsparql"), "kw": {}}, (1, 0, 0, [], "validate")),
    "fail_rule_run": ({"op": "validate", "data": g("d"), "shapes": g("s_fn_badrule"), "kw": {"advanced": True}}, (1, 0, 1, ["twice", "isC"], "rules")),
    "fail_rule_run_rules": ({"op": "rules", "data": g("d"), "shapes": g("s_fn_badrule"), "kw": {}}, (1, 0, 1, ["twice", "isC"], "rules")),
}
GRAPHS = {"s_expr": SHAPES_EXPR, "s_fnonly": SHAPES_FNONLY, "s_undeclared": SHAPES_CALLS_UNDECLARED, "d": DATA, "s_basic": SHAPES_BASIC, "s_fn": SHAPES_FN, "s_cc": SHAPES_CC, "o": ONT, "s_meta_bad": SHAPES_META_BAD,
          "s_shapeload": SHAPES_SHAPELOAD, "s_constrload": SHAPES_CONSTRLOAD, "s_badsparql": SHAPES_BADSPARQL, "s_fn_badrule": SHAPES_FN_BADRULE,
          "d_embedded": DATA + SHAPES_BASIC.replace(PFX, "")}
EDITS = [
    # inside a blank-node description of a property shape
    {"op": "edit", "name": "s_basic", "update": ["PREFIX sh: <http://www.w3.org/ns/shacl#> DELETE { ?b sh:maxCount ?o } INSERT { ?b sh:maxCount 2 } WHERE { ?b sh:maxCount ?o }"]},
    {"op": "edit", "name": "s_basic", "update": ["PREFIX sh: <http://www.w3.org/ns/shacl#> PREFIX ex: <http://ex.test/> DELETE { ?b sh:minCount ?o } INSERT { ?b sh:minCount 3 } WHERE { ?b sh:path ex:q ; sh:minCount ?o }"]},
    # inside a SPARQL validator definition
    {"op": "edit", "name": "s_cc", "update": ["PREFIX sh: <http://www.w3.org/ns/shacl#> DELETE { ?v sh:ask ?q } INSERT { ?v sh:ask \"ASK { FILTER (STRLEN(STR($value)) > $maxLen) }\" } WHERE { ?v sh:ask ?q }"]},
    {"op": "edit", "name": "s_fn", "update": ["PREFIX sh: <http://www.w3.org/ns/shacl#> PREFIX ex: <http://ex.test/> DELETE { ex:twice sh:select ?q } INSERT { ex:twice sh:select \"SELECT ($op1 * 3 AS ?r) WHERE {}\" } WHERE { ex:twice sh:select ?q }"]},
    # fix the data
    {"op": "edit", "name": "d", "update": ["PREFIX ex: <http://ex.test/> DELETE DATA { ex:b ex:p 2 }"]},
    {"op": "edit", "name": "d", "update": ["PREFIX ex: <http://ex.test/> INSERT DATA { ex:b ex:q \"a long value\" }"]},
    # the modifier of a string component (same pattern, other flags)
    {"op": "edit", "name": "s_basic", "update": ["PREFIX sh: <http://www.w3.org/ns/shacl#> INSERT { ?b sh:flags \"i\" } WHERE { ?b sh:pattern ?p }"]},
    {"op": "edit", "name": "s_basic", "update": ["PREFIX sh: <http://www.w3.org/ns/shacl#> DELETE { ?b sh:flags ?f } WHERE { ?b sh:flags ?f }"]},
    # the class hierarchy inside the data graph (sh:class and sh:targetClass walk rdfs:subClassOf in it)
    {"op": "edit", "name": "d", "update": ["PREFIX ex: <http://ex.test/> PREFIX rdfs: <http://www.w3.org/2000/01/rdf-schema#> DELETE DATA { ex:E rdfs:subClassOf ex:C }"]},
    {"op": "edit", "name": "d", "update": ["PREFIX ex: <http://ex.test/> PREFIX rdfs: <http://www.w3.org/2000/01/rdf-schema#> DELETE DATA { ex:E rdfs:subClassOf ex:C } ; INSERT DATA { ex:E rdfs:subClassOf ex:D }"]},
    {"op": "edit", "name": "d", "update": ["PREFIX ex: <http://ex.test/> PREFIX rdfs: <http://www.w3.org/2000/01/rdf-schema#> INSERT DATA { ex:D rdfs:subClassOf ex:C }"]},
    # replace a graph object by a new one with other content (id reuse is up to CPython)
    {"op": "replace", "name": "s_basic"},
]


SHAPES_CC_BROKEN = SHAPES_CC.replace('sh:ask "ASK { FILTER (STRLEN(STR($value)) <= $maxLen) }"', 'sh:ask "ASK { FILTER (STRLEN(STR($value)) <= $maxLen "')
SHAPES_TEXT_BROKEN = PFX + """ex:S a sh:NodeShape ; sh:targetClass ex:C ; sh:property [ sh:path ex:p ; sh:maxCount 1 ] .
ex:T a sh:NodeShape ; sh:targetClass ex:C ; sh:minCount 1 .
"""


def repaired_histories():
    """a call fails on a graph object after it has looked at (and possibly cached) parts of it; the user repairs the graph in
    place and changes exactly those parts; the next call must see the graph as it is now"""
    out = []
    base = [{"op": "graph", "name": k, "ttl": v} for k, v in GRAPHS.items()]
    # SPARQL validator: broken query, then fixed query + reworded message / other validator kind
    fixes = [
        ["PREFIX sh: <http://www.w3.org/ns/shacl#> DELETE { ?v sh:ask ?q ; sh:message ?m } INSERT { ?v sh:ask \"ASK { FILTER (STRLEN(STR($value)) <= $maxLen) }\" ; sh:message \"longer than allowed\" } WHERE { ?v sh:ask ?q ; sh:message ?m }"],
        ["PREFIX sh: <http://www.w3.org/ns/shacl#> DELETE { ?v sh:ask ?q } INSERT { ?v sh:ask \"ASK { FILTER (STRLEN(STR($value)) > $maxLen) }\" } WHERE { ?v sh:ask ?q }"],
    ]
    for fx in fixes:
        for pre in ([], ["ok_basic"]):
            steps = list(base) + [{"op": "graph", "name": "s_ccbroken", "ttl": SHAPES_CC_BROKEN}]
            model = []
            for name in pre:
                steps.append(dict(json.loads(json.dumps(CALLS[name][0])), label=name)); model.append((name, CALLS[name][1]))
            steps.append({"op": "validate", "data": g("d"), "shapes": g("s_ccbroken"), "kw": {}, "label": "fail_cc_query"}); model.append(("fail_cc_query", (1, 0, 0, [], "validate")))
            steps.append({"op": "edit", "name": "s_ccbroken", "update": fx})
            steps.append({"op": "validate", "data": g("d"), "shapes": g("s_ccbroken"), "kw": {}, "label": "ok_cc_repaired"}); model.append(("ok_cc_repaired", (1, 0, 0, [], "-")))
            out.append((steps, model))
    # blank-node text: ex:S reports (its blank property shape is rendered), then ex:T fails to load; repaired and ex:S changed
    steps = list(base) + [{"op": "graph", "name": "s_textbroken", "ttl": SHAPES_TEXT_BROKEN}]
    steps.append({"op": "validate", "data": g("d"), "shapes": g("s_textbroken"), "kw": {}, "label": "fail_text"})
    steps.append({"op": "edit", "name": "s_textbroken", "update": [
        "PREFIX sh: <http://www.w3.org/ns/shacl#> PREFIX ex: <http://ex.test/> DELETE { ex:T sh:minCount ?o } WHERE { ex:T sh:minCount ?o }",
        "PREFIX sh: <http://www.w3.org/ns/shacl#> DELETE { ?b sh:maxCount ?o } INSERT { ?b sh:maxCount 0 } WHERE { ?b sh:maxCount ?o }"]})
    steps.append({"op": "validate", "data": g("d"), "shapes": g("s_textbroken"), "kw": {}, "label": "ok_text_repaired"})
    out.append((steps, [("fail_text", (1, 0, 0, [], "validate")), ("ok_text_repaired", (1, 0, 0, [], "-"))]))
    return out


def gen_history(rng):
    names = list(CALLS)
    n = rng.randint(2, 6)
    steps = [{"op": "graph", "name": k, "ttl": v} for k, v in GRAPHS.items()]
    model = []
    for i in range(n):
        last = i == n - 1
        name = rng.choice([x for x in names if x.startswith("ok")] if last or rng.random() < 0.45 else names)
        if rng.random() < 0.6 and i > 0:
            e = dict(rng.choice(EDITS))
            if e["op"] == "replace":
                steps.append({"op": "del", "name": e["name"]})
                steps.append({"op": "graph", "name": e["name"], "ttl": SHAPES_BASIC.replace("sh:maxCount 1", "sh:maxCount %d" % rng.randint(0, 3))})
            else:
                steps.append(e)
        tmpl, mc = CALLS[name]
        steps.append(dict(json.loads(json.dumps(tmpl)), label=name))
        model.append((name, mc))
    return steps, model


def run_worker(steps, skip, hashseed=None):
    # the order in which the shapes of a graph are evaluated is the iteration order of a python set: a fixed PYTHONHASHSEED makes a
    # history replayable, several of them cover both orders of a two-shape graph
    env = dict(os.environ, PYTHONHASHSEED=str(hashseed)) if hashseed is not None else None
    p = subprocess.run(["/venv/bin/python", os.path.join(os.path.dirname(os.path.dirname(os.path.abspath(__file__))), "hist_worker.py")], input=json.dumps({"steps": steps, "skip_calls_before_last": skip}).encode(),
                       stdout=subprocess.PIPE, stderr=subprocess.PIPE, timeout=600, env=env)
    out = [json.loads(l) for l in p.stdout.decode().splitlines() if l.startswith("{")]
    return out, p.returncode, p.stderr.decode()[-600:]


def run(ctx, out):
    from concurrent.futures import ThreadPoolExecutor
    rng = random.Random(ctx.seed * 160481183 + 10)
    quick = ctx.tier == "quick"
    n = 90 if quick else 1200
    out.rule = ("histories of 2-6 validate()/shacl_rules() calls over shared graph objects drawn from 16 call templates (6 succeeding; "
                "failing at: unparsable data / shapes / ontology, meta-SHACL rejection, shape load, constraint load, forbidden SPARQL, "
                "rule run-time error) with edits between calls (inside blank-node property shapes, SPARQL validator and function "
                "definitions, data fixes, graph object replacement); last call compared with a one-shot process; non-trivial = "
                "distinct history with >=1 failing call or >=1 edit before the last call")
    hists = [gen_history(rng) for _ in range(n)]
    seeds = [None] * len(hists)
    for hseed in (0, 1, 2, 3, 4, 5):          # the directed histories under six fixed hash seeds each
        rep = repaired_histories()
        hists += rep
        seeds += [hseed] * len(rep)
    lines = []
    for k, (steps, model) in enumerate(hists):
        toks = []
        for name, (sgiven, ogiven, adv, fns, fail) in model:
            toks.append("CALL %d %d %d %d %s %s" % (sgiven, ogiven, adv, len(fns), " ".join(fns), fail))
        lines.append("c%d history %s" % (k, " ".join(" ".join(t.split()) for t in toks)))
    replies = ctx.driver.ask(lines)
    with ThreadPoolExecutor(max_workers=12) as ex:
        longs = list(ex.map(lambda hs: run_worker(hs[0][0], False, hs[1]), zip(hists, seeds)))
        shorts = list(ex.map(lambda hs: run_worker(hs[0][0], True, hs[1]), zip(hists, seeds)))
    for k, (steps, model) in enumerate(hists):
        out.evaluations += 1
        labels = [s.get("label") for s in steps if s["op"] in ("validate", "rules")]
        case = {"history": [s if s["op"] != "graph" else {"op": "graph", "name": s["name"]} for s in steps], "calls": labels}
        lo, rc1, err1 = longs[k]
        sh, rc2, err2 = shorts[k]
        if len(lo) != len(labels) or len(sh) != 1:
            out.b_fail.append({"signature": "C10:worker-crashed", "case": case, "stderr": (err1 + err2)[-800:]})
            continue
        # (B1) last call equals the fresh-process call
        a, b = lo[-1]["outcome"], sh[0]["outcome"]
        if a != b:
            diff = [key for key in set(a) | set(b) if a.get(key) != b.get(key)]
            out.b_fail.append({"signature": "C10:history-dependent:" + "+".join(sorted(diff)), "case": case,
                               "long_lived": {x: (a.get(x) if x != "graph" else "...") for x in a}, "one_shot": {x: (b.get(x) if x != "graph" else "...") for x in b}})
        # (B2) global state around every call
        for rec, lab in zip(lo, labels):
            ga = rec["globals_after"]
            if not ga["normalize_literals"] or not ga["bool_parser_original"] or ga["custom_functions"]:
                out.b_fail.append({"signature": "C10:global-state-left-behind:%s" % ("normalize" if not ga["normalize_literals"] else "boolparser" if not ga["bool_parser_original"] else "functions"),
                                   "case": case, "after_call": lab, "globals": ga})
                break
        # (A) model prediction of the global state after each call
        out.traces += 1
        pred = replies["c%d" % k].split()[1:]
        for rec, lab, p in zip(lo, labels, pred):
            ga = rec["globals_after"]
            gb = rec["globals_before"]
            got = "n%d:b%d:c%d:o%d%d%d" % (ga["normalize_literals"], not ga["bool_parser_original"], len(ga["custom_functions"]),
                                           gb["normalize_literals"], not gb["bool_parser_original"], len(gb["custom_functions"]))
            if got != p:
                out.a_mismatch.append({"case": case, "call": lab, "code": got, "model": p, "op": "history"})
                break
            # the failing stage the template is meant to hit must be the one hit
        for rec, lab in zip(lo, labels):
            kind = rec["outcome"]["kind"]
            out.count("call:%s:%s" % (lab, kind if kind != "raised" else rec["outcome"]["family"]))
        if any(l.startswith("fail") for l in labels[:-1]) or any(s["op"] in ("edit", "del") for s in steps):
            out.nontrivial.add(json.dumps(case["history"], sort_keys=True))
        out.sample({"calls": labels, "last_outcome": {x: (a.get(x) if x not in ("graph", "text") else "...") for x in a}})
