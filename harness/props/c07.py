"""C07 — SPARQL remote-graph mode and in-memory mode give the same report.

(B) the metamorphic relation itself, on the real code: validate(..., sparql_mode=False) vs True on equal inputs (Core components,
    property paths, all target kinds, compositions), under different namespace bindings of the data graph; the data graph is never
    written to in sparql_mode (quad snapshot).
(A) code in sparql_mode vs Impl (the model evaluates with in-memory semantics; `mode_equiv` is what relates the two);
    `shacl_path_to_sparql_path` called directly vs Impl `Path.print` (the SPARQL text of every path), and the printed text is parsed
    and evaluated by rdflib's SPARQL engine and compared with the SPARQL 1.1 relation (the C03 theorem).
"""
import random

import rdflib
from rdflib import BNode, Graph, Literal, Namespace, URIRef
from rdflib.namespace import RDF

import pathgen
import shapegen
import vcase
import wire
from common import EX, NODES, PREDS, SH, graph_from_triples
from props import c04

SUB = Namespace("http://ex.test/sub/")


def falsy_literal_subjects(sg, dg):
    """rdflib's path evaluation tests `if subj:`; a literal that is falsy in python (false, 0, 0.0, "") bound as the subject
    of a closure path is treated as unbound (wrong value nodes, or an AssertionError in rdflib/paths.py)"""
    cands = set(o for o in dg.objects() if isinstance(o, Literal)) | set(o for o in sg.objects(None, SH.targetNode) if isinstance(o, Literal))
    has_complex = any(isinstance(p, BNode) for p in sg.objects(None, SH.path))
    return has_complex and any((not bool(l)) for l in cands)


class SGWrap:
    def __init__(self, g):
        self.graph = g

    def objects(self, s, p):
        return self.graph.objects(s, p)


def bind_variant(g: Graph, variant: int):
    h = Graph(bind_namespaces="none") if variant == 3 else Graph()
    for t in g:
        h.add(t)
    if variant == 0:
        h.bind("ex", EX)
    elif variant == 1:
        h.bind("ex", URIRef("http://ex.test/"))
        h.bind("s", SUB)
    elif variant == 2:
        h.bind("ex", URIRef("http://ex.tes"))       # a namespace that leaves "t/p0" as local part
    elif variant == 4:
        h.bind("ex", URIRef("http://other.test/"))  # the data document uses the prefix of the shapes document for another namespace
    return h


def rdflib_xsd_integer():
    from rdflib.namespace import XSD
    return XSD.integer


def run(ctx, out):
    from pyshacl.helper.path_helper import shacl_path_to_sparql_path
    rng = random.Random(ctx.seed * 179424673 + 7)
    quick = ctx.tier == "quick"
    # ── printer: every path, several prefix maps ─────────────────────────────────────────────
    preds = PREDS[:2] + [SUB["q"], URIRef("http://ex.test/a.b"), URIRef("http://ex.test/x-y")]
    paths = pathgen.enum_paths(PREDS[:2], 1) + [pathgen.rand_path(rng, preds, rng.choice((2, 3, 4))) for _ in range(100 if quick else 800)]
    prefix_maps = [{}, {"ex": str(EX)}, {"ex": "http://ex.tes", "e2": str(EX)}, {"": str(EX), "s": str(SUB)}]
    plines, pmeta = [], {}
    for i, a in enumerate(paths):
        sg = Graph()
        node = pathgen.encode(sg, a)
        pm = prefix_maps[i % len(prefix_maps)]
        cid = "p%d" % i
        pmeta[cid] = (a, sg, node, pm)
        plines.append("%s printpath %s NPFX %d %s SG %s" % (cid, wire.term(node), len(pm), " ".join("%s %s" % (wire.esc(k), wire.esc(v)) for k, v in pm.items()), wire.graph(sg)))
    # ── metamorphic cases ──────────────────────────────────────────────────────────────────────
    cases = c04.gen_cases(rng, 30 if quick else 250, 3)
    for _ in range(70 if quick else 600):
        data = shapegen.gen_data(rng)
        gen = shapegen.ShapeGen(rng, data)
        for _ in range(rng.randint(1, 3)):
            gen.shape(complex_path=0.45)
        cases.append(("core", gen.g, graph_from_triples(data)))
    # sparse value nodes under sh:closed / property pairs (unbound OPTIONALs in the batched queries)
    for _ in range(25 if quick else 150):
        data = shapegen.gen_data(rng, n=rng.choice((3, 5)), literal_bias=0.2)
        gen = shapegen.ShapeGen(rng, data)
        s = gen.shape(is_prop=rng.random() < 0.7, n_constraints=0)
        for k in rng.sample(["closed", "equals", "disjoint", "lessThan", "class"], 2):
            gen.core_constraint(s, (s, SH.path, None) in gen.g, gen.g.value(s, SH.path), only=k)
        gen.g.remove((s, SH.deactivated, None))
        cases.append(("sparse", gen.g, graph_from_triples(data)))
    # witness of the recorded open finding (rdflib: python-falsy literal as pre-bound subject of a closure path)
    wsg = Graph()
    wn = pathgen.encode(wsg, ("star", ("star", ("p", PREDS[0]))))
    wsg.add((EX.WS, RDF.type, SH.PropertyShape)); wsg.add((EX.WS, SH.path, wn)); wsg.add((EX.WS, SH.targetObjectsOf, PREDS[0])); wsg.add((EX.WS, SH.maxLength, Literal(2)))
    cases.insert(0, ("corpus:falsy-literal", wsg, graph_from_triples([(BNode("d1"), PREDS[0], Literal(False)), (NODES[1], PREDS[0], Literal("fast"))])))
    # literal focus nodes (sh:targetObjectsOf / sh:targetNode) under paths that admit the zero-length path: the literal is its own value node
    for k in range(12 if quick else 60):
        lsg = Graph()
        a = [("opt", ("p", PREDS[0])), ("star", ("p", PREDS[0])), ("opt", ("inv", ("p", PREDS[0]))), ("seq", [("opt", ("p", PREDS[0])), ("opt", ("p", PREDS[1]))]),
             ("alt", [("opt", ("p", PREDS[0])), ("p", PREDS[1])]), ("star", ("inv", ("p", PREDS[1])))][k % 6]
        ps = EX["LF%d" % k]
        lsg.add((ps, RDF.type, SH.PropertyShape)); lsg.add((ps, SH.path, pathgen.encode(lsg, a)))
        if k % 2:
            lsg.add((ps, SH.targetObjectsOf, PREDS[1]))
        else:
            for l in (Literal("abc"), Literal(7), Literal("x", lang="en")):
                lsg.add((ps, SH.targetNode, l))
        lsg.add((ps, [SH.datatype, SH.minCount, SH.maxLength, SH.nodeKind][k // 2 % 4], [rdflib_xsd_integer(), Literal(2), Literal(2), SH.IRI][k // 2 % 4]))
        ldata = [(NODES[0], PREDS[1], Literal("abc")), (NODES[0], PREDS[1], Literal(7)), (NODES[1], PREDS[1], Literal("x", lang="en")),
                 (NODES[1], PREDS[1], NODES[2]), (NODES[2], PREDS[0], NODES[3]), (NODES[2], PREDS[0], Literal(1.5))]
        cases.append(("literal-focus", lsg, graph_from_triples(ldata)))
    # several values per target kind, different counts per kind (the VALUES clause of the sparql_mode target query)
    from common import CLASSES
    for _ in range(30 if quick else 120):
        data = shapegen.gen_data(rng, literal_bias=0.3)
        gen = shapegen.ShapeGen(rng, data)
        s = gen.shape(is_prop=False, n_constraints=1, with_targets=False)
        gen.g.remove((s, SH.deactivated, None))
        for c in rng.sample(CLASSES, rng.randint(0, 3)):
            gen.g.add((s, SH.targetClass, c))
        for pp in rng.sample(PREDS, rng.randint(0, 3)):
            gen.g.add((s, SH.targetSubjectsOf, pp))
        for pp in rng.sample(PREDS, rng.randint(0, 2)):
            gen.g.add((s, SH.targetObjectsOf, pp))
        cases.append(("targets", gen.g, graph_from_triples(data)))
    out.rule = ("printer: exhaustive nesting<=1 + random nesting 2..4 paths over IRIs with plain and non-plain local names x 4 prefix maps; "
                "metamorphic: Core shapes (45% complex paths), compositions, sparse value-node cases x 5 namespace-binding variants of the "
                "data graph, sparql_mode off/on; non-trivial = distinct metamorphic case with >=1 result")
    lines = plines + [vcase.model_line("c%d" % i, sg, dg) for i, (_l, sg, dg) in enumerate(cases)]
    replies = ctx.driver.ask(lines)
    for cid, (a, sg, node, pm) in pmeta.items():
        out.evaluations += 1
        out.traces += 1
        try:
            txt = ("ok", shacl_path_to_sparql_path(SGWrap(sg), node, prefixes=pm))
        except Exception as e:  # noqa
            from common import exc_detail
            txt = ("err", exc_detail(e))
        rep = replies[cid].split()
        model = ("ok", wire.unesc(rep[1])) if rep[0] == "ok" else ("err", rep[1])
        case = {"path": pathgen.show(a), "prefixes": pm, "shapes_ttl": sg.serialize(format="turtle")}
        if txt != model and not (txt[0] == "err" and model[0] == "err" and txt[1].split(":")[0] == model[1].split(":")[0]):
            out.a_mismatch.append({"case": case, "code": txt, "model": model, "op": "printpath"})
        if txt[0] == "ok":
            # (B) the text is SPARQL and means the SPARQL 1.1 relation of the path
            dg = graph_from_triples(shapegen.gen_data(rng, n=8, literal_bias=0.2) + [(NODES[0], p, NODES[1]) for p in preds] + [(NODES[1], p, NODES[2]) for p in preds])
            pfx = "".join("PREFIX %s: <%s>\n" % (k, v) for k, v in pm.items())
            try:
                got = set(wire.tkey(r[0]) for r in dg.query(pfx + "SELECT DISTINCT ?v WHERE { %s %s ?v }" % (NODES[0].n3(), txt[1])))
                want = set(wire.tkey(r[0]) for r in dg.query("SELECT DISTINCT ?v WHERE { %s %s ?v }" % (NODES[0].n3(), pathgen.sparql(a))))
                if got != want:
                    out.b_fail.append({"signature": "C07:printed-path-means-something-else", "case": case, "text": txt[1]})
            except Exception as e:  # noqa
                out.b_fail.append({"signature": "C07:printed-path-does-not-parse", "case": case, "text": txt[1], "error": type(e).__name__})
        out.count("print:" + txt[0])
    # every option that writes to the working graph, combined with sparql_mode: rejected, skipped — never applied to the data graph
    import pyshacl
    from rdflib.namespace import RDFS
    wsg = Graph()
    wsg.parse(data="""@prefix sh: <http://www.w3.org/ns/shacl#> . @prefix ex: <http://ex.test/> . @prefix rdfs: <http://www.w3.org/2000/01/rdf-schema#> .
        ex:WS a sh:NodeShape ; sh:targetClass ex:C0 ; sh:class ex:C1 ;
          sh:rule [ a sh:TripleRule ; sh:subject sh:this ; sh:predicate ex:derived ; sh:object ex:C1 ] .""", format="turtle")
    wont = Graph()
    wont.add((EX.C0, RDFS.subClassOf, EX.C1))
    for kw in ({"inference": "rdfs"}, {"inference": "owlrl"}, {"ont_graph": wont}, {"advanced": True}, {"advanced": True, "iterate_rules": True},
               {"inplace": True}, {"advanced": True, "inplace": True}, {"inference": "rdfs", "advanced": True}):
        wdg = graph_from_triples([(NODES[0], RDF.type, EX.C0), (NODES[1], RDF.type, EX.C0), (EX.C0, RDFS.subClassOf, EX.C2)])
        before = frozenset(wdg)
        out.evaluations += 1
        try:
            pyshacl.validate(wdg, shacl_graph=wsg, sparql_mode=True, **kw)
            outcome = "returned"
        except Exception as e:  # noqa
            outcome = type(e).__name__
        out.count("sparql_mode+writer:" + outcome)
        if frozenset(wdg) != before:
            out.b_fail.append({"signature": "C07:data-graph-written-in-sparql-mode", "case": {"options": {k: str(v)[:40] for k, v in kw.items()}, "outcome": outcome,
                               "added": sorted(str(t) for t in frozenset(wdg) - before)[:5]}})
    for i, (label, sg, dg0) in enumerate(cases):
        variant = i % 5
        dg = bind_variant(dg0, variant)
        if variant in (2, 4):
            sg.bind("ex", EX, override=True)        # shapes and data come from documents that bind one prefix differently
        before = frozenset(dg)
        out.evaluations += 2
        out.traces += 1
        mem = vcase.run_code(sg, dg, {"sparql_mode": False})
        spq = vcase.run_code(sg, dg, {"sparql_mode": True})
        case = vcase.describe(sg, dg0, {"binding_variant": variant}, label=label)
        if frozenset(dg) != before:
            out.b_fail.append({"signature": "C07:data-graph-written-in-sparql-mode", "case": case})
        model = vcase.parse_model(replies["c%d" % i])
        d = vcase.compare(spq, model, sg, with_detail=True)
        if d:
            out.a_mismatch.append({"case": case, "diff": "sparql_mode: " + d[:900], "op": "validate",
                                   "covered_by": "C07:rdflib-falsy-literal-path-subject" if falsy_literal_subjects(sg, dg) else None})
        if mem[0] != spq[0] or (mem[0] == "err" and mem[1] != spq[1]):
            fam = spq[1] if spq[0] == "err" else "report"
            sig = "C07:outcome-differs:%s" % fam
            if fam == "raw:AssertionError" and falsy_literal_subjects(sg, dg):
                sig = "C07:rdflib-falsy-literal-path-subject"
            out.b_fail.append({"signature": sig, "case": case, "in_memory": mem[:2], "sparql_mode": spq[:2]})
            continue
        if mem[0] != "ok":
            out.count("both_err:" + mem[1])
            continue
        dms = vcase.declared_msg_shapes(sg)
        mask = vcase.unspecified_mask(sg)
        ra, _ = vcase.drop_masked(mem[2], mask)
        rb, _ = vcase.drop_masked(spq[2], mask)
        a, b = vcase.multiset(ra, dms, True), vcase.multiset(rb, dms, True)
        if a != b or (mem[1] != spq[1] and not mask):
            only_mem = list((a - b).elements())[:3]
            only_spq = list((b - a).elements())[:3]
            comp = ((only_mem or only_spq or [("", "", "", "#verdict")])[0][3]).rsplit("#", 1)[-1].replace("ConstraintComponent", "")
            sig = "C07:results-differ:%s:%s" % ("missing-in-sparql-mode" if only_mem else "extra-in-sparql-mode", comp)
            falsy = set(wire.tkey(l) for l in set(dg.objects()) | set(sg.objects(None, SH.targetNode)) if isinstance(l, Literal) and not bool(l))
            # the falsy literal is the focus node itself, or an intermediate node of a complex path (result path = blank node)
            if falsy_literal_subjects(sg, dg) and all(k[0] in falsy or str(k[2]).startswith("B:") for k in only_mem + only_spq):
                sig = "C07:rdflib-falsy-literal-path-subject"
            out.b_fail.append({"signature": sig,
                               "case": case, "only_in_memory": only_mem, "only_sparql_mode": only_spq})
        if mem[2]:
            out.nontrivial.add(i)
        out.count("variant:%d" % variant)
        out.sample({"label": label, "binding_variant": variant, "results": len(mem[2])})
