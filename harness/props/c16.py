"""C16 — outcomes use only the documented channels (exception families, exit codes).

Malformed stream (all through the real code):
  * exhaustive: every shape parameter x 18 kinds of value (IRI, blank node, typed / ill-typed / language literals, well-formed,
    open-ended and looping lists, invalid regex, …) x node / property shape;
  * a corpus of ill-formed paths, dangling references, broken SPARQL (constraints, validators, targets, rules, functions),
    ill-formed rules / node expressions / target declarations;
  * random corruption of generated well-formed shapes graphs (one parameter value replaced by a value of a random kind);
  * data graphs with looping rdf:rest chains;
  * the command line (`python -m pyshacl`) on a sample of these plus missing / unparsable / unreadable files.
(B) API: the outcome is a report, an in-band ValidationFailure, an exception of the documented family or NotImplementedError.
    CLI: 0 only with a conforming report on stdout, 1 only with a non-conforming report or validation failure, 2 errors, 3 unimplemented.
(A) API outcome class vs Impl (`validate` op); CLI exit status vs the regenerated exception->status mapping (`exit` op).
"""
import contextlib
import io
import os
import random
import shutil
import subprocess
import sys
import tempfile
from concurrent.futures import ThreadPoolExecutor

import pyshacl
from pyshacl.errors import ReportableRuntimeError
from rdflib import BNode, Graph, Literal, Namespace, URIRef
from rdflib.collection import Collection
from rdflib.namespace import RDF, XSD

import shapegen
import vcase
import wire
from common import EX, SH, graph_from_triples

PARAMS = ["class", "datatype", "nodeKind", "minCount", "maxCount", "minExclusive", "minInclusive", "maxExclusive", "maxInclusive", "minLength",
          "maxLength", "pattern", "flags", "languageIn", "uniqueLang", "equals", "disjoint", "lessThan", "lessThanOrEquals", "not", "and", "or",
          "xone", "node", "property", "qualifiedValueShape", "qualifiedMinCount", "qualifiedMaxCount", "qualifiedValueShapesDisjoint", "closed",
          "ignoredProperties", "hasValue", "in", "deactivated", "severity", "message", "path", "targetClass", "targetNode", "targetSubjectsOf",
          "targetObjectsOf", "order", "name", "description", "group", "defaultValue", "sparql"]


def kinds(g):
    def lst(items):
        h = BNode()
        Collection(g, h, items)
        return h

    def badlist():
        h = BNode()
        g.add((h, RDF.first, EX.a))   # no rdf:rest
        return h

    def cyc():
        h = BNode()
        g.add((h, RDF.first, EX.a))
        g.add((h, RDF.rest, h))
        return h
    return {
        "iri": lambda: EX.x, "bnode": lambda: BNode(), "string": lambda: Literal("abc"), "int": lambda: Literal(1), "negint": lambda: Literal(-1),
        "bool": lambda: Literal(True), "decimal": lambda: Literal("1.5", datatype=XSD.decimal), "illint": lambda: Literal("abc", datatype=XSD.integer),
        "lang": lambda: Literal("x", lang="en"), "list_iris": lambda: lst([EX.a, EX.b]), "list_lits": lambda: lst([Literal("a"), Literal(1)]),
        "list_empty": lambda: RDF.nil, "badlist": badlist, "cyclist": cyc, "badregex": lambda: Literal("("), "double": lambda: Literal(1.5),
        "date": lambda: Literal("2020-01-01", datatype=XSD.date), "shapeiri": lambda: EX.Other,
    }


KIND_NAMES = list(kinds(Graph()).keys())

DATA_TTL = """@prefix ex: <http://ex.test/> .
ex:n0 ex:p0 ex:n1, "a", 1 ; ex:p1 "b"@en ; a ex:C0 . ex:n1 ex:p0 ex:n0 ."""

PFX = """@prefix sh: <http://www.w3.org/ns/shacl#> . @prefix ex: <http://ex.test/> . @prefix xsd: <http://www.w3.org/2001/XMLSchema#> .
@prefix rdf: <http://www.w3.org/1999/02/22-rdf-syntax-ns#> . @prefix rdfs: <http://www.w3.org/2000/01/rdf-schema#> .
ex:decl sh:declare [ sh:prefix "ex" ; sh:namespace "http://ex.test/"^^xsd:anyURI ] .
"""

CORPUS = {
    "path-literal": 'ex:S a sh:PropertyShape ; sh:targetNode ex:n0 ; sh:path "p" ; sh:minCount 1 .',
    "path-inverse-literal": 'ex:S a sh:PropertyShape ; sh:targetNode ex:n0 ; sh:path [ sh:inversePath "x" ] ; sh:minCount 1 .',
    "path-empty-bnode": 'ex:S a sh:PropertyShape ; sh:targetNode ex:n0 ; sh:path [ ] ; sh:minCount 1 .',
    "path-list-one": 'ex:S a sh:PropertyShape ; sh:targetNode ex:n0 ; sh:path ( ex:p0 ) ; sh:minCount 1 .',
    "path-alt-one": 'ex:S a sh:PropertyShape ; sh:targetNode ex:n0 ; sh:path [ sh:alternativePath ( ex:p0 ) ] ; sh:minCount 1 .',
    "path-alt-notlist": 'ex:S a sh:PropertyShape ; sh:targetNode ex:n0 ; sh:path [ sh:alternativePath ex:p0 ] ; sh:minCount 1 .',
    "path-cyclic": 'ex:S a sh:PropertyShape ; sh:targetNode ex:n0 ; sh:path _:c ; sh:minCount 1 . _:c sh:inversePath _:c .',
    "path-badlist": 'ex:S a sh:PropertyShape ; sh:targetNode ex:n0 ; sh:path [ rdf:first ex:p0 ] ; sh:minCount 1 .',
    "path-looping-list": 'ex:S a sh:PropertyShape ; sh:targetNode ex:n0 ; sh:path _:l ; sh:minCount 1 . _:l rdf:first ex:p0 ; rdf:rest _:l .',
    "path-two-kinds": 'ex:S a sh:PropertyShape ; sh:targetNode ex:n0 ; sh:path [ sh:inversePath ex:p0 ; sh:zeroOrMorePath ex:p1 ] ; sh:minCount 1 .',
    "path-deep": 'ex:S a sh:PropertyShape ; sh:targetNode ex:n0 ; sh:minCount 1 ; sh:path ' + "[ sh:inversePath " * 14 + "ex:p0" + " ]" * 14 + " .",
    "node-dangling": 'ex:S a sh:NodeShape ; sh:targetNode ex:n0 ; sh:node ex:Nowhere .',
    "node-literal": 'ex:S a sh:NodeShape ; sh:targetNode ex:n0 ; sh:node "x" .',
    "property-dangling": 'ex:S a sh:NodeShape ; sh:targetNode ex:n0 ; sh:property ex:Nowhere .',
    "not-dangling": 'ex:S a sh:NodeShape ; sh:targetNode ex:n0 ; sh:not ex:Nowhere .',
    "and-dangling": 'ex:S a sh:NodeShape ; sh:targetNode ex:n0 ; sh:and ( ex:Nowhere ) .',
    "and-literal-member": 'ex:S a sh:NodeShape ; sh:targetNode ex:n0 ; sh:and ( "x" ) .',
    "or-notlist": 'ex:S a sh:NodeShape ; sh:targetNode ex:n0 ; sh:or ex:Other . ex:Other a sh:NodeShape .',
    "qvs-dangling": 'ex:S a sh:PropertyShape ; sh:path ex:p0 ; sh:targetNode ex:n0 ; sh:qualifiedValueShape ex:Nowhere ; sh:qualifiedMinCount 1 .',
    "qvs-nocount": 'ex:S a sh:PropertyShape ; sh:path ex:p0 ; sh:targetNode ex:n0 ; sh:qualifiedValueShape [ sh:class ex:C0 ] .',
    "qmin-string": 'ex:S a sh:PropertyShape ; sh:path ex:p0 ; sh:targetNode ex:n0 ; sh:qualifiedValueShape [ sh:class ex:C0 ] ; sh:qualifiedMinCount "x" .',
    "in-notlist": 'ex:S a sh:NodeShape ; sh:targetNode ex:n0 ; sh:in ex:x .',
    "languageIn-notlist": 'ex:S a sh:PropertyShape ; sh:path ex:p1 ; sh:targetNode ex:n0 ; sh:languageIn "en" .',
    "languageIn-nonstring": 'ex:S a sh:PropertyShape ; sh:path ex:p1 ; sh:targetNode ex:n0 ; sh:languageIn ( 1 ex:x ) .',
    "ignored-notlist": 'ex:S a sh:NodeShape ; sh:targetNode ex:n0 ; sh:closed true ; sh:ignoredProperties ex:p0 .',
    "sparql-syntax": 'ex:S a sh:NodeShape ; sh:targetNode ex:n0 ; sh:sparql [ sh:select "SELECT $this WHERE { $this ex:p0 " ; sh:prefixes ex:decl ] .',
    "sparql-noselect": 'ex:S a sh:NodeShape ; sh:targetNode ex:n0 ; sh:sparql [ sh:message "m" ] .',
    "sparql-select-iri": 'ex:S a sh:NodeShape ; sh:targetNode ex:n0 ; sh:sparql [ sh:select ex:q ] .',
    "sparql-ask-in-select": 'ex:S a sh:NodeShape ; sh:targetNode ex:n0 ; sh:sparql [ sh:select "ASK { ?s ?p ?o }" ] .',
    "sparql-unknown-prefix": 'ex:S a sh:NodeShape ; sh:targetNode ex:n0 ; sh:sparql [ sh:select "SELECT $this WHERE { $this nope:p ?v }" ] .',
    "sparql-prefixes-literal": 'ex:S a sh:NodeShape ; sh:targetNode ex:n0 ; sh:sparql [ sh:select "SELECT $this WHERE { $this ex:p0 ?v }" ; sh:prefixes "x" ] .',
    "sparql-declare-bad": 'ex:S a sh:NodeShape ; sh:targetNode ex:n0 ; sh:sparql [ sh:select "SELECT $this WHERE { $this e2:p0 ?v }" ; sh:prefixes ex:d2 ] . ex:d2 sh:declare [ sh:prefix 5 ; sh:namespace ex:x ] .',
    "sparql-unevaluable": 'ex:S a sh:NodeShape ; sh:targetNode ex:n0 ; sh:sparql [ sh:prefixes ex:decl ; sh:select "SELECT $this (EXISTS { $this ex:p0 ?x } AS ?value) WHERE {}" ] .',
    "component-unevaluable": 'ex:Comp a sh:ConstraintComponent ; sh:parameter [ sh:path ex:par ] ; sh:validator [ sh:prefixes ex:decl ; sh:select "SELECT $this (EXISTS { $this ex:p0 ?x } AS ?value) WHERE {}" ] . ex:S a sh:NodeShape ; sh:targetNode ex:n0 ; ex:par 1 .',
    "sparql-minus": 'ex:S a sh:NodeShape ; sh:targetNode ex:n0 ; sh:sparql [ sh:prefixes ex:decl ; sh:select "SELECT $this WHERE { $this ex:p0 ?v . MINUS { $this ex:p1 ?w } }" ] .',
    "severity-literal": 'ex:S a sh:NodeShape ; sh:targetNode ex:n0 ; sh:class ex:Z ; sh:severity "high" .',
    "message-iri": 'ex:S a sh:NodeShape ; sh:targetNode ex:n0 ; sh:class ex:Z ; sh:message ex:m .',
    "deactivated-string": 'ex:S a sh:NodeShape ; sh:targetNode ex:n0 ; sh:class ex:Z ; sh:deactivated "yes" .',
    "two-severity": 'ex:S a sh:NodeShape ; sh:targetNode ex:n0 ; sh:class ex:Z ; sh:severity sh:Info, sh:Warning .',
    "targetClass-literal": 'ex:S a sh:NodeShape ; sh:targetClass "C" ; sh:class ex:Z .',
    "subjectsOf-literal": 'ex:S a sh:NodeShape ; sh:targetSubjectsOf "p" ; sh:class ex:Z .',
    "recursive-node": 'ex:S a sh:NodeShape ; sh:targetNode ex:n0 ; sh:node ex:S .',
    "recursive-prop": 'ex:S a sh:NodeShape ; sh:targetNode ex:n0 ; sh:property [ sh:path ex:p0 ; sh:node ex:S ] .',
    "nodeshape-with-path": 'ex:S a sh:NodeShape ; sh:path ex:p0 ; sh:targetNode ex:n0 .',
    "propshape-two-paths": 'ex:S a sh:PropertyShape ; sh:path ex:p0, ex:p1 ; sh:targetNode ex:n0 .',
    "both-shape-types": 'ex:S a sh:NodeShape, sh:PropertyShape ; sh:path ex:p0 ; sh:targetNode ex:n0 .',
    "component-noparam": 'ex:Comp a sh:ConstraintComponent ; sh:validator [ a sh:SPARQLAskValidator ; sh:ask "ASK { }" ] . ex:S a sh:NodeShape ; sh:targetNode ex:n0 .',
    "component-badvalidator": 'ex:Comp a sh:ConstraintComponent ; sh:parameter [ sh:path ex:par ] ; sh:validator [ sh:ask "ASK { " ] . ex:S a sh:NodeShape ; sh:targetNode ex:n0 ; ex:par 1 .',
    "component-select-syntax": 'ex:Comp a sh:ConstraintComponent ; sh:parameter [ sh:path ex:par ] ; sh:validator [ sh:select "SELECT $this WHERE { " ] . ex:S a sh:NodeShape ; sh:targetNode ex:n0 ; ex:par 1 .',
    "component-novalidator": 'ex:Comp a sh:ConstraintComponent ; sh:parameter [ sh:path ex:par ] . ex:S a sh:NodeShape ; sh:targetNode ex:n0 ; ex:par 1 .',
    "component-param-nopath": 'ex:Comp a sh:ConstraintComponent ; sh:parameter [ sh:optional true ] ; sh:validator [ sh:ask "ASK { }" ] . ex:S a sh:NodeShape ; sh:targetNode ex:n0 ; ex:par 1 .',
}

CORPUS_ADV = {
    "target-unevaluable": 'ex:S a sh:NodeShape ; sh:target [ a sh:SPARQLTarget ; sh:prefixes ex:decl ; sh:select "SELECT ?this (EXISTS { ?this ex:p0 ?x } AS ?y) WHERE { ?this ?p ?o }" ] ; sh:class ex:Z .',
    "fn-unevaluable": 'ex:f a sh:SPARQLFunction ; sh:parameter [ sh:path ex:a ] ; sh:returnType xsd:boolean ; sh:prefixes ex:decl ; sh:select "SELECT (EXISTS { $a ex:p0 ?x } AS ?r) WHERE {}" . ex:S a sh:NodeShape ; sh:targetNode ex:n0 ; sh:expression [ ex:f ( sh:this ) ] .',
    "rule-unevaluable": 'ex:S a sh:NodeShape ; sh:targetNode ex:n0 ; sh:rule [ a sh:SPARQLRule ; sh:prefixes ex:decl ; sh:construct "CONSTRUCT { $this ex:x ?v } WHERE { { SELECT (EXISTS { ?s ex:p0 ?o } AS ?v) WHERE {} } }" ] .',
    "rule-nosubject": 'ex:S a sh:NodeShape ; sh:targetNode ex:n0 ; sh:rule [ a sh:TripleRule ; sh:predicate ex:p ; sh:object ex:o ] .',
    "rule-two-objects": 'ex:S a sh:NodeShape ; sh:targetNode ex:n0 ; sh:rule [ a sh:TripleRule ; sh:subject sh:this ; sh:predicate ex:p ; sh:object ex:o, ex:o2 ] .',
    "rule-untyped": 'ex:S a sh:NodeShape ; sh:targetNode ex:n0 ; sh:rule [ sh:subject sh:this ; sh:predicate ex:p ; sh:object ex:o ] .',
    "rule-both-types": 'ex:S a sh:NodeShape ; sh:targetNode ex:n0 ; sh:rule [ a sh:TripleRule, sh:SPARQLRule ; sh:subject sh:this ; sh:predicate ex:p ; sh:object ex:o ] .',
    "rule-construct-syntax": 'ex:S a sh:NodeShape ; sh:targetNode ex:n0 ; sh:rule [ a sh:SPARQLRule ; sh:construct "CONSTRUCT { $this ex:p ?o } WHERE { " ] .',
    "rule-construct-iri": 'ex:S a sh:NodeShape ; sh:targetNode ex:n0 ; sh:rule [ a sh:SPARQLRule ; sh:construct ex:q ] .',
    "rule-select": 'ex:S a sh:NodeShape ; sh:targetNode ex:n0 ; sh:rule [ a sh:SPARQLRule ; sh:construct "SELECT ?s WHERE { ?s ?p ?o }" ] .',
    "rule-order-string": 'ex:S a sh:NodeShape ; sh:targetNode ex:n0 ; sh:rule [ a sh:TripleRule ; sh:order "first" ; sh:subject sh:this ; sh:predicate ex:p ; sh:object ex:o ] .',
    "rule-order-illtyped": 'ex:S a sh:NodeShape ; sh:targetNode ex:n0 ; sh:rule [ a sh:TripleRule ; sh:order "x"^^xsd:integer ; sh:subject sh:this ; sh:predicate ex:p ; sh:object ex:o ] .',
    "rule-order-iri": 'ex:S a sh:NodeShape ; sh:targetNode ex:n0 ; sh:rule [ a sh:TripleRule ; sh:order ex:one ; sh:subject sh:this ; sh:predicate ex:p ; sh:object ex:o ] .',
    "shape-order-string": 'ex:S a sh:NodeShape ; sh:order "x" ; sh:targetNode ex:n0 ; sh:rule [ a sh:TripleRule ; sh:subject sh:this ; sh:predicate ex:p ; sh:object ex:o ] .',
    "rule-condition-dangling": 'ex:S a sh:NodeShape ; sh:targetNode ex:n0 ; sh:rule [ a sh:TripleRule ; sh:condition ex:Nowhere ; sh:subject sh:this ; sh:predicate ex:p ; sh:object ex:o ] .',
    "rule-on-nonshape": 'ex:NotAShape sh:rule [ a sh:TripleRule ; sh:subject sh:this ; sh:predicate ex:p ; sh:object ex:o ] . ex:S a sh:NodeShape ; sh:targetNode ex:n0 .',
    "rule-object-emptyexpr": 'ex:S a sh:NodeShape ; sh:targetNode ex:n0 ; sh:rule [ a sh:TripleRule ; sh:subject sh:this ; sh:predicate ex:p ; sh:object [ ] ] .',
    "rule-object-unknownfn": 'ex:S a sh:NodeShape ; sh:targetNode ex:n0 ; sh:rule [ a sh:TripleRule ; sh:subject sh:this ; sh:predicate ex:p ; sh:object [ ex:nofn ( sh:this ) ] ] .',
    "rule-union-intersection": 'ex:S a sh:NodeShape ; sh:targetNode ex:n0 ; sh:rule [ a sh:TripleRule ; sh:subject sh:this ; sh:predicate ex:p ; sh:object [ sh:union ( ex:a ) ; sh:intersection ( ex:a ) ] ] .',
    "rule-fresh-bnode-iterate": 'ex:S a sh:NodeShape ; sh:targetNode ex:n0 ; sh:rule [ a sh:SPARQLRule ; sh:construct "CONSTRUCT { $this <http://ex.test/r> [] } WHERE { }" ] .',
    "expr-empty": 'ex:S a sh:NodeShape ; sh:targetNode ex:n0 ; sh:expression [ ] .',
    "expr-union-notlist": 'ex:S a sh:NodeShape ; sh:targetNode ex:n0 ; sh:expression [ sh:union ex:x ] .',
    "expr-too-many-args": 'ex:f a sh:SPARQLFunction ; sh:parameter [ sh:path ex:a ] ; sh:ask "ASK { }" . ex:S a sh:NodeShape ; sh:targetNode ex:n0 ; sh:expression [ ex:f ( sh:this sh:this ) ] .',
    "expr-too-few-args": 'ex:f a sh:SPARQLFunction ; sh:parameter [ sh:path ex:a ] , [ sh:path ex:b ] ; sh:ask "ASK { }" . ex:S a sh:NodeShape ; sh:targetNode ex:n0 ; sh:expression [ ex:f ( sh:this ) ] .',
    "fn-both": 'ex:f a sh:SPARQLFunction ; sh:select "SELECT ?x WHERE {}" ; sh:ask "ASK {}" . ex:S a sh:NodeShape ; sh:targetNode ex:n0 .',
    "fn-neither": 'ex:f a sh:SPARQLFunction . ex:S a sh:NodeShape ; sh:targetNode ex:n0 .',
    "fn-syntax": 'ex:f a sh:SPARQLFunction ; sh:parameter [ sh:path ex:a ] ; sh:ask "ASK { " . ex:S a sh:NodeShape ; sh:targetNode ex:n0 ; sh:expression [ ex:f ( sh:this ) ] .',
    "fn-syntax-from-sparql": 'ex:f a sh:SPARQLFunction ; sh:parameter [ sh:path ex:a ] ; sh:ask "ASK { " . ex:S a sh:NodeShape ; sh:targetNode ex:n0 ; sh:sparql [ sh:prefixes ex:decl ; sh:select "SELECT $this WHERE { $this ex:p0 ?v . FILTER (ex:f(?v)) }" ] .',
    "fn-param-nopath": 'ex:f a sh:SPARQLFunction ; sh:parameter [ sh:order 1 ] ; sh:ask "ASK { }" . ex:S a sh:NodeShape ; sh:targetNode ex:n0 ; sh:expression [ ex:f ( sh:this ) ] .',
    "fn-param-order-string": 'ex:f a sh:SPARQLFunction ; sh:parameter [ sh:path ex:a ; sh:order "x" ] ; sh:ask "ASK { }" . ex:S a sh:NodeShape ; sh:targetNode ex:n0 .',
    "fn-abstract": 'ex:f a sh:SHACLFunction ; sh:parameter [ sh:path ex:a ] . ex:S a sh:NodeShape ; sh:targetNode ex:n0 ; sh:expression [ ex:f ( sh:this ) ] .',
    "fn-ask-returntype": 'ex:f a sh:SPARQLFunction ; sh:returnType xsd:string ; sh:ask "ASK { }" . ex:S a sh:NodeShape ; sh:targetNode ex:n0 .',
    "target-noselect": 'ex:S a sh:NodeShape ; sh:target [ a sh:SPARQLTarget ] ; sh:class ex:Z .',
    "target-syntax": 'ex:S a sh:NodeShape ; sh:target [ a sh:SPARQLTarget ; sh:select "SELECT ?this WHERE { " ] ; sh:class ex:Z .',
    "target-nothis": 'ex:S a sh:NodeShape ; sh:target [ a sh:SPARQLTarget ; sh:select "SELECT ?x WHERE { ?x ?p ?o }" ] ; sh:class ex:Z .',
    "target-unknown-type": 'ex:S a sh:NodeShape ; sh:target [ a ex:Whatever ] ; sh:class ex:Z .',
    "target-js": 'ex:S a sh:NodeShape ; sh:target [ a sh:JSTarget ; sh:jsFunctionName "f" ] ; sh:class ex:Z .',
    "targettype-noselect": 'ex:TT a sh:SPARQLTargetType ; rdfs:subClassOf sh:Target . ex:S a sh:NodeShape ; sh:target [ a ex:TT ] ; sh:class ex:Z .',
    "targettype-missingparam": 'ex:TT a sh:SPARQLTargetType ; rdfs:subClassOf sh:Target ; sh:parameter [ sh:path ex:pred ] ; sh:select "SELECT ?this WHERE { ?this $pred ?o }" . ex:S a sh:NodeShape ; sh:target [ a ex:TT ] ; sh:class ex:Z .',
    "targettype-nothis": 'ex:TT a sh:SPARQLTargetType ; rdfs:subClassOf sh:Target ; sh:select "SELECT ?x WHERE { ?x ?p ?o }" . ex:S a sh:NodeShape ; sh:target [ a ex:TT ] ; sh:class ex:Z .',
}

DATA_CORPUS = {
    "data-looping-list-value": ('ex:S a sh:PropertyShape ; sh:path ex:p0 ; sh:targetNode ex:n0 ; sh:class ex:C .',
                                "@prefix ex: <http://ex.test/> . @prefix rdf: <http://www.w3.org/1999/02/22-rdf-syntax-ns#> . ex:n0 ex:p0 _:c . _:c rdf:first ex:a ; rdf:rest _:c ."),
    "data-literal-subject-free": ('ex:S a sh:NodeShape ; sh:targetObjectsOf ex:p0 ; sh:nodeKind sh:IRI .', DATA_TTL),
}


def classify(fn):
    """outcome of a call through the public API, as a channel name"""
    buf = io.StringIO()
    try:
        with contextlib.redirect_stdout(buf), contextlib.redirect_stderr(buf):
            r = fn()
    except ReportableRuntimeError as e:
        return type(e).__name__
    except NotImplementedError:
        return "NotImplementedError"
    except RecursionError:
        return "raw:RecursionError"
    except BaseException as e:  # noqa
        return "raw:" + type(e).__name__
    if isinstance(r, tuple):
        return "report:%d" % bool(r[0]) if isinstance(r[1], Graph) else "ValidationFailure"
    return "graph"


def documented(out):
    return not out.startswith("raw:")


def expected_status(api_outcome):
    if api_outcome.startswith("report:"):
        return 0 if api_outcome.endswith("1") else 1
    if api_outcome == "ValidationFailure":
        return 1
    if api_outcome == "NotImplementedError":
        return 3
    return 2


def exit_line(cid, api_outcome):
    if api_outcome.startswith("report:"):
        return "%s exit report %s" % (cid, api_outcome[-1])
    if api_outcome == "ValidationFailure":
        return "%s exit failure" % cid
    return "%s exit raised %s" % (cid, api_outcome.replace("raw:", ""))


def make_param_case(isprop, p, k):
    g = Graph()
    v = kinds(g)[k]()
    s = EX.S
    g.add((s, RDF.type, SH.PropertyShape if isprop else SH.NodeShape))
    if isprop and p != "path":
        g.add((s, SH.path, EX.p0))
    if not p.startswith("target"):
        g.add((s, SH.targetNode, EX.n0))
    g.add((EX.Other, RDF.type, SH.NodeShape))
    g.add((EX.Other, SH["class"], EX.C0))
    if p in ("qualifiedMinCount", "qualifiedMaxCount", "qualifiedValueShapesDisjoint"):
        g.add((s, SH.qualifiedValueShape, EX.Other))
    if p == "qualifiedValueShape":
        g.add((s, SH.qualifiedMinCount, Literal(1)))
    if p == "flags":
        g.add((s, SH.pattern, Literal("a")))
    if p == "ignoredProperties":
        g.add((s, SH.closed, Literal(True)))
    g.add((s, SH[p], v))
    return g


def corrupt(rng, sg):
    """replace the value of one sh: parameter triple by a value of a random kind"""
    g = Graph()
    for t in sg:
        g.add(t)
    cands = [t for t in g if str(t[1]).startswith(str(SH)) and t[1] not in (SH.declare, SH.prefix, SH.namespace)]
    if not cands:
        return g, None
    t = rng.choice(sorted(cands, key=lambda x: tuple(str(y) for y in x)))
    k = rng.choice(KIND_NAMES)
    g.remove(t)
    g.add((t[0], t[1], kinds(g)[k]()))
    return g, (str(t[1]).rsplit("#", 1)[-1], k)


def run_cli(args, cwd):
    env = dict(os.environ, PYTHONPATH=os.environ.get("VERIF_REPO", "/repo"), PYTHONWARNINGS="ignore")
    try:
        p = subprocess.run(["/venv/bin/python", "-m", "pyshacl"] + args, cwd=cwd, env=env, stdout=subprocess.PIPE, stderr=subprocess.PIPE, timeout=90)
    except subprocess.TimeoutExpired:
        return 124, "", "no exit within 90 s"
    return p.returncode, p.stdout.decode("utf-8", "replace"), p.stderr.decode("utf-8", "replace")


def stdout_kind(text, fmt):
    """what the command line wrote: conforming report / non-conforming report / validation failure / nothing"""
    if "Validation Failure" in text:
        return "failure"
    if fmt == "human":
        if "Conforms: True" in text:
            return "report:1"
        if "Conforms: False" in text:
            return "report:0"
        return "none"
    if not text.strip():
        return "none"
    try:
        g = Graph().parse(data=text, format=fmt)
    except Exception:  # noqa
        return "none"
    vals = list(g.objects(None, SH.conforms))
    if len(vals) != 1:
        return "none"
    return "report:%d" % bool(vals[0].value)


def run(ctx, out):
    rng = random.Random(ctx.seed * 472882049 + 16)
    quick = ctx.tier == "quick"
    dg = Graph().parse(data=DATA_TTL, format="turtle")
    out.rule = ("exhaustive: %d parameters x %d value kinds x node/property shape; corpus of %d ill-formed shapes graphs (paths, references, "
                "SPARQL text, rules, functions, targets, node expressions) with advanced on/off; %d random corruptions of generated shapes graphs; "
                "data graphs with looping lists; command line on a sample incl. missing / unparsable files and both report formats; "
                "non-trivial = distinct input whose outcome is not a plain report"
                % (len(PARAMS), len(KIND_NAMES), len(CORPUS) + len(CORPUS_ADV), 150 if quick else 3000))
    items = []     # (label, sg, dg, kwargs, model?)
    for isprop in (False, True):
        for p in PARAMS:
            for k in KIND_NAMES:
                items.append(("param:%s:%s:%s" % ("prop" if isprop else "node", p, k), make_param_case(isprop, p, k), dg, {}, True))
    for name, ttl in CORPUS.items():
        g = Graph().parse(data=PFX + ttl, format="turtle")
        items.append(("corpus:" + name, g, dg, {}, False))
        items.append(("corpus+adv:" + name, g, dg, {"advanced": True}, False))
    for name, ttl in CORPUS_ADV.items():
        g = Graph().parse(data=PFX + ttl, format="turtle")
        items.append(("adv:" + name, g, dg, {"advanced": True}, False))
        items.append(("adv+iterate:" + name, g, dg, {"advanced": True, "iterate_rules": True}, False))
        items.append(("rules:" + name, g, dg, {"_rules": True}, False))
    for name, (ttl, data) in DATA_CORPUS.items():
        items.append(("data:" + name, Graph().parse(data=PFX + ttl, format="turtle"), Graph().parse(data=data, format="turtle"), {}, False))
    for i in range(150 if quick else 3000):
        data = shapegen.gen_data(rng)
        gen = shapegen.ShapeGen(rng, data)
        for _ in range(rng.randint(1, 2)):
            gen.shape(complex_path=0.3)
        g, what = corrupt(rng, gen.g)
        if what is not None:
            items.append(("corrupt:%s:%s" % what, g, graph_from_triples(data), {}, True))
    # the same ill-formed shapes graphs handed over as a Dataset whose triples sit in a named graph (rdflib's default:
    # default_union off): every check that walks "the shapes graph" has to look at the union
    from rdflib import Dataset
    extra = []
    for (label, sg, d, kw, wm) in items:
        if label.startswith("param:") and (label.endswith((":cyclist", ":badlist", ":list_empty", ":badregex")) or rng.random() < 0.03):
            ds = Dataset()
            ng = ds.graph(EX.shapesGraph)
            for t in sg:
                ng.add(t)
            extra.append(("ds:" + label, ds, d, kw, False))
    items += extra
    # ── API ────────────────────────────────────────────────────────────────────────────────────────
    lines = []
    for i, (label, sg, d, kw, with_model) in enumerate(items):
        if with_model:
            lines.append(vcase.model_line("m%d" % i, sg, d, kw))
    replies = ctx.driver.ask(lines) if lines else {}
    outcomes = []
    for i, (label, sg, d, kw, with_model) in enumerate(items):
        out.evaluations += 1
        kw2 = {k: v for k, v in kw.items() if not k.startswith("_")}
        if kw.get("_rules"):
            o = classify(lambda: pyshacl.shacl_rules(d, shacl_graph=sg, **kw2))
        else:
            o = classify(lambda: pyshacl.validate(d, shacl_graph=sg, **kw2))
        outcomes.append(o)
        out.count("api:" + o.split(":")[0] + (":" + o.split(":")[1] if o.startswith("raw") else ""))
        case = {"label": label, "shapes_ttl": (sg.serialize(format="trig") if label.startswith("ds:") else sg.serialize(format="turtle")),
                "data_ttl": d.serialize(format="turtle"), "options": {k: v for k, v in kw.items()}}
        if not documented(o):
            if label.startswith("ds:"):
                label = label[3:] + ":as-dataset"
            fam = label.split(":")[0]
            what = label.split(":", 1)[1] if fam in ("corpus", "corpus+adv", "adv", "adv+iterate", "rules", "data") else ":".join(label.split(":")[2:3] if fam == "param" else label.split(":")[1:2])
            out.b_fail.append({"signature": "C16:%s:%s" % (o, what), "case": case, "outcome": o})
        if not o.startswith("report"):
            out.nontrivial.add(i)
        if with_model:
            out.traces += 1
            m = replies["m%d" % i].split()
            mo = ("report:%s" % m[1]) if m[0] == "ok" else m[1] if m[0] == "err" else "bad:" + " ".join(m[:2])
            mo = mo.split(":")[0] if mo.startswith("ReportableRuntimeError") else mo
            if mo != o and not (o.startswith("report") and mo.startswith("report") and vcase.unspecified_mask(sg)):
                out.a_mismatch.append({"case": case, "code": o, "model": mo, "op": "validate-outcome", "diff": "code %s, model %s" % (o, mo)})
        if len(out.samples) < 12 and not o.startswith("report"):
            out.sample({"label": label, "outcome": o})
    # ── command line ───────────────────────────────────────────────────────────────────────────────
    tmp = tempfile.mkdtemp(prefix="c16cli_")
    try:
        jobs = []
        pick = [i for i, it in enumerate(items) if it[0].startswith(("corpus:", "adv:", "data:"))]
        pick += rng.sample([i for i, it in enumerate(items) if it[0].startswith("param:")], 24 if quick else 300)
        pick += [i for i, it in enumerate(items) if it[0].startswith("corrupt:")][: (10 if quick else 200)]
        for n, i in enumerate(pick):
            label, sg, d, kw, _m = items[i]
            sp, dp = os.path.join(tmp, "s%d.ttl" % n), os.path.join(tmp, "d%d.ttl" % n)
            sg.serialize(destination=sp, format="turtle")
            d.serialize(destination=dp, format="turtle")
            fmt = rng.choice(["human", "turtle", "human", "json-ld"])
            args = [dp, "-s", sp, "-f", fmt] + (["-a"] if kw.get("advanced") else []) + (["--iterate-rules"] if kw.get("iterate_rules") else [])
            # the API outcome of exactly this command line: files are re-parsed, so validate() is called again on the files
            api = classify(lambda: pyshacl.validate(dp, shacl_graph=sp, **{k: v for k, v in kw.items() if not k.startswith("_")}))
            jobs.append((label, args, api, fmt))
            if api == "ValidationFailure":
                # a validation failure stands in for the report graph: every output format has to cope with it, and so has the
                # API's serialize_report_graph option
                for f2 in ("human", "turtle", "json-ld", "table"):
                    if f2 != fmt:
                        a2 = [dp, "-s", sp, "-f", f2] + args[5:]
                        jobs.append((label + ":-f " + f2, a2, api, f2))
                for srg in (True, "turtle", "json-ld"):
                    o2 = classify(lambda: pyshacl.validate(dp, shacl_graph=sp, serialize_report_graph=srg, **{k: v for k, v in kw.items() if not k.startswith("_")}))
                    out.evaluations += 1
                    if o2 != "ValidationFailure":
                        out.b_fail.append({"signature": "C16:%s:%s:serialize_report_graph" % (o2, label.split(":", 1)[1]),
                                           "case": {"label": label, "shapes_ttl": sg.serialize(format="turtle"), "options": dict(kw, serialize_report_graph=srg)}, "outcome": o2})
        # special inputs
        good_s, good_d = os.path.join(tmp, "good_s.ttl"), os.path.join(tmp, "good_d.ttl")
        open(good_s, "w").write(PFX + "ex:S a sh:NodeShape ; sh:targetNode ex:n0 ; sh:class ex:C0 .")
        open(good_d, "w").write(DATA_TTL)
        bad = os.path.join(tmp, "broken.ttl")
        open(bad, "w").write("@prefix ex: <http://ex.test/> .\nex:a ex:b .. ;;\n")
        binary = os.path.join(tmp, "binary.ttl")
        open(binary, "wb").write(bytes(range(256)) * 4)
        empty = os.path.join(tmp, "empty.ttl")
        open(empty, "w").write("")
        blank = os.path.join(tmp, "blank")       # no extension, no format option: the format is sniffed
        open(blank, "w").write("\n \n")
        specials = [("cli:blank-data-no-extension", [blank, "-s", good_s], None), ("cli:good", [good_d, "-s", good_s], None), ("cli:missing-data", [os.path.join(tmp, "nope.ttl"), "-s", good_s], 2),
                    ("cli:missing-shapes", [good_d, "-s", os.path.join(tmp, "nope.ttl")], 2), ("cli:broken-data", [bad, "-s", good_s], 2),
                    ("cli:broken-shapes", [good_d, "-s", bad], 2), ("cli:binary-data", [binary, "-s", good_s], 2), ("cli:no-args", [], 2),
                    ("cli:data-is-directory", [tmp, "-s", good_s], 2), ("cli:empty-data", [empty, "-s", good_s], None),
                    ("cli:bad-endpoint", ["not-a-url", "-s", good_s, "-q"], 2), ("cli:unknown-format", [good_d, "-s", good_s, "-df", "nonsense"], 2),
                    ("cli:bad-option", [good_d, "-s", good_s, "--no-such-option"], 2)]
        for label, args, want in specials:
            jobs.append((label, args, None if want is None else "status:%d" % want, "human"))
        with ThreadPoolExecutor(max_workers=16) as ex:
            results = list(ex.map(lambda j: run_cli(j[1], tmp), jobs))
        exit_lines = [exit_line("x%d" % n, api) for n, (_l, _a, api, _f) in enumerate(jobs) if api is not None and not api.startswith("status:")]
        xrep = ctx.driver.ask(exit_lines) if exit_lines else {}
        for n, ((label, args, api, fmt), (rc, so, se)) in enumerate(zip(jobs, results)):
            out.evaluations += 1
            case = {"label": label, "args": [a.replace(tmp, "<tmp>") for a in args], "stdout": so[:600], "stderr": se[-600:]}
            wrote = stdout_kind(so, fmt)
            # the contract between status and what was written
            ok = (rc == 0 and wrote == "report:1") or (rc == 1 and wrote in ("report:0", "failure")) or (rc in (2, 3) and wrote in ("none",))
            if not ok:
                out.b_fail.append({"signature": "C16:cli:status-%d-with-%s:%s" % (rc, wrote, label.split(":")[0]), "case": case, "status": rc, "written": wrote})
            if api is not None:
                want = int(api.split(":")[1]) if api.startswith("status:") else expected_status(api)
                if rc != want:
                    out.b_fail.append({"signature": "C16:cli:status-%d-expected-%d:%s" % (rc, want, label if label.startswith("cli:") else api), "case": case, "api_outcome": api})
                if not api.startswith("status:"):
                    out.traces += 1
                    ms = xrep["x%d" % n].split()
                    if ms[0] != "ok" or int(ms[1]) != rc:
                        out.a_mismatch.append({"case": case, "code": rc, "model": " ".join(ms), "op": "exit", "diff": "cli status %d, model %s" % (rc, " ".join(ms))})
            out.count("cli:status:%d" % rc)
    finally:
        shutil.rmtree(tmp, ignore_errors=True)
