"""C08 — the caller's data and ontology graphs are not modified unless inplace is set.

(B) quad-level snapshot of the caller's graph objects before and after validate() / shacl_rules(), for every
    configuration {Graph, Dataset, ConjunctiveGraph} x {no ont, Graph ont, Dataset ont} x {none, rdfs, owlrl, both}
    x advanced x iterate_rules x api x inplace (enumerated exhaustively in thorough, 1/3 per seed in quick),
    normal return and a failure injected at each pipeline stage (clone, mix-in, pre-inference, rules, validation).
(A) the sequence of pipeline operations (which object is cloned / written / validated) observed by wrapping
    clone_graph / clone_dataset / inoculate / _run_pre_inference / apply_rules / Shape.validate vs Impl `Pipeline.plan`.
"""
import itertools
import random
import sys

import pyshacl
import rdflib
from rdflib import ConjunctiveGraph, Dataset, Graph, Literal, URIRef
from rdflib.namespace import OWL, RDF, RDFS

from common import CLASSES, EX, NODES, PREDS, SH, exc_detail

PFX = """@prefix sh: <http://www.w3.org/ns/shacl#> . @prefix ex: <http://ex.test/> . @prefix rdf: <http://www.w3.org/1999/02/22-rdf-syntax-ns#> .
"""
TRIPLE_RULE = "sh:rule [ a sh:TripleRule ; sh:subject sh:this ; sh:predicate ex:inferred ; sh:object ex:yes ] ;"
SPARQL_RULE = 'sh:rule [ a sh:SPARQLRule ; sh:construct "CONSTRUCT { $this <http://ex.test/inferred2> <http://ex.test/yes> } WHERE { $this a <http://ex.test/C0> }" ] ;'


def shapes_ttl(rules):
    r = (TRIPLE_RULE if rules in ("both", "triple") else "") + (SPARQL_RULE if rules in ("both", "sparql") else "")
    return PFX + """ex:RS a sh:NodeShape ; sh:targetClass ex:C0 ; %s sh:property [ sh:path ex:p0 ; sh:maxCount 1 ] .
ex:CS a sh:NodeShape ; sh:targetClass ex:C1 ; sh:class ex:C2 .""" % r


class Injected(Exception):
    pass


def make_data(rng, kind, embed=None):
    ts = list(embed) if embed is not None else []
    ts += [(NODES[0], RDF.type, CLASSES[0]), (NODES[1], RDF.type, CLASSES[3]), (NODES[0], PREDS[0], Literal(1)),
          (NODES[0], PREDS[0], Literal(2)), (NODES[2], RDF.type, CLASSES[1]), (CLASSES[3], RDFS.subClassOf, CLASSES[0])]
    for _ in range(rng.randint(0, 4)):
        ts.append((rng.choice(NODES), rng.choice(PREDS), rng.choice(NODES)))
    if kind == "graph":
        g = Graph()
        for t in ts:
            g.add(t)
        return g
    ds = Dataset() if kind == "dataset" else ConjunctiveGraph()
    g1 = ds.get_context(EX.g1) if kind != "dataset" else ds.graph(EX.g1)
    for i, t in enumerate(ts):
        if i % 2:
            g1.add(t)
        elif kind == "dataset":
            ds.default_context.add(t)
        else:
            ds.get_context(EX.g2).add(t)
    return ds


def make_ont(kind):
    if kind == "none":
        return None
    ts = [(CLASSES[1], RDF.type, OWL.Class), (CLASSES[1], RDFS.subClassOf, CLASSES[2]), (PREDS[1], RDF.type, OWL.ObjectProperty),
          (PREDS[1], RDFS.domain, CLASSES[0])]
    if kind == "graph":
        g = Graph()
        for t in ts:
            g.add(t)
        return g
    ds = Dataset()
    g1 = ds.graph(EX.og)
    for t in ts:
        g1.add(t)
    return ds


def snapshot(g):
    if g is None:
        return None
    if isinstance(g, (Dataset, ConjunctiveGraph)):
        return frozenset((s, p, o, c.identifier if hasattr(c, "identifier") else c) for s, p, o, c in g.quads((None, None, None, None)))
    return frozenset(g)


class Tracer:
    """wraps the pipeline stages of the real code; records which object each one touches; optionally raises"""

    def __init__(self, data, ont, fail_at=None, shapes=None):
        self.data, self.ont, self.fail_at, self.shapes = data, ont, fail_at, shapes
        self.ops = []
        self.fresh = {}
        self.patches = []
        self.validated = None

    def ident(self, g):
        st = getattr(g, "store", None)
        if st is self.data.store:
            return "data"
        if self.ont is not None and st is self.ont.store:
            return "ont"
        if self.shapes is not None and st is self.shapes.store:
            return "shapes"
        k = id(st)
        if k not in self.fresh:
            self.fresh[k] = "fresh?%d" % len(self.fresh)
        return self.fresh[k]

    def maybe_fail(self, stage):
        if self.fail_at == stage:
            raise Injected(stage)

    def patch(self, mod, name, wrapper_factory):
        orig = getattr(mod, name)
        setattr(mod, name, wrapper_factory(orig))
        self.patches.append((mod, name, orig))

    def __enter__(self):
        import pyshacl.rule_expand_runner as rer
        import pyshacl.run_type as rt
        import pyshacl.validator as val
        import pyshacl.shape as shp
        inoc_mod = sys.modules["pyshacl.rdfutil.inoculate"]
        t = self

        def clone_w(orig):
            def w(src, *a, **k):
                t.maybe_fail("clone")
                r = orig(src, *a, **k)
                t.ops.append(("clone", t.ident(src), t.ident(r)))
                return r
            return w

        def inoc_w(orig):
            def w(dst, ontg, *a, **k):
                t.ops.append(("read:inoculate", t.ident(ontg)))
                t.ops.append(("write:inoculate", t.ident(dst)))
                r = orig(dst, ontg, *a, **k)
                t.maybe_fail("inoculate")
                return r
            return w

        def infer_w(orig):
            def w(cls, target_graph, *a, **k):
                t.ops.append(("write:infer", t.ident(target_graph)))
                r = orig.__func__(cls, target_graph, *a, **k)
                t.maybe_fail("infer")
                return r
            return classmethod(w)

        def rules_w(orig):
            def w(executor, rules, g, *a, **k):
                t.ops.append(("write:rules", t.ident(g)))
                r = orig(executor, rules, g, *a, **k)
                t.maybe_fail("rules")
                return r
            return w

        def validate_w(orig):
            def w(self_, executor, target_graph, *a, **k):
                if t.validated is None:
                    t.validated = t.ident(target_graph)
                t.maybe_fail("validate")
                return orig(self_, executor, target_graph, *a, **k)
            return w

        for mod in (val, rer):
            self.patch(mod, "clone_graph", clone_w)
            self.patch(mod, "inoculate", inoc_w)
            self.patch(mod, "apply_rules", rules_w)
        self.patch(inoc_mod, "clone_dataset", clone_w)
        self.patch(inoc_mod, "inoculate", inoc_w)
        orig = rt.PySHACLRunType.__dict__["_run_pre_inference"]
        rt.PySHACLRunType._run_pre_inference = infer_w(orig)
        self.patches.append((rt.PySHACLRunType, "_run_pre_inference", orig))
        self.patch(shp.Shape, "validate", validate_w)
        import pyshacl.shapes_graph as sgm

        def system_w(orig):
            def w(self_):
                t.ops.append(("write:system", t.ident(self_.graph)))
                return orig(self_)
            return w
        self.patch(sgm.ShapesGraph, "_add_system_triples", system_w)
        return self

    def __exit__(self, *a):
        for mod, name, orig in reversed(self.patches):
            setattr(mod, name, orig)

    def canonical(self):
        """rename fresh objects in order of creation by clone; drop duplicate read/write pairs of nested inoculate calls"""
        names = {}
        out = []
        for op in self.ops:
            if op[0] == "clone":
                names[op[2]] = "fresh%d" % len(names)
        seen_inoc = set()
        for op in self.ops:
            if op[0] == "clone":
                out.append("clone:%s" % names.get(op[1], op[1]))
            else:
                tok = "%s:%s" % (op[0], names.get(op[1], op[1]))
                if op[0].endswith("inoculate"):
                    if tok in seen_inoc:
                        continue
                    seen_inoc.add(tok)
                out.append(tok)
        return out


def model_tokens(reply):
    toks = reply.split()
    assert toks[0] == "ok", reply
    ops, fresh = [], {}
    for t in toks[1:]:
        if t.startswith("clone:"):
            src, dst = t[6:].split(">")
            fresh[dst] = "fresh%d" % len(fresh)
    for t in toks[1:]:
        if t.startswith("clone:"):
            src, dst = t[6:].split(">")
            ops.append("clone:%s" % fresh.get(src, src))
        elif t.startswith("target:"):
            continue
        else:
            k, st, o = t.split(":")
            ops.append("%s:%s:%s" % (k, st, fresh.get(o, o)))
    return ops


def run(ctx, out):
    rng = random.Random(ctx.seed * 141650939 + 8)
    quick = ctx.tier == "quick"
    sgs = {r: Graph().parse(data=shapes_ttl(r), format="turtle") for r in ("both", "sparql", "triple", "none")}
    space = list(itertools.product(("validate", "rules"), ("graph", "dataset", "conjunctive"), ("none", "graph", "dataset"),
                                   ("none", "rdfs", "owlrl", "both"), (False, True), (False, True), (False, True)))
    space = [c + (rng.choice(("both", "sparql", "triple", "none")), rng.random() < 0.25) for c in space]
    out.exhaustive = not quick
    if quick:
        space = [c for i, c in enumerate(space) if (i + ctx.seed) % 3 == 0]
    faults = [None, "clone", "inoculate", "infer", "rules", "validate"]
    out.rule = ("configuration space api x data container x ontology container x inference x advanced x iterate_rules x inplace "
                "(576; quick: one third chosen by the seed) x rule kinds in the shapes graph {both, only SPARQL, only triple, none} x "
                "{separate shapes graph, shapes embedded in the data graph} (sampled) x {normal return, failure injected at clone / mix-in / pre-inference / "
                "rules / validation}; non-trivial = distinct (config, fault) in which some pipeline stage wrote to an object")
    lines, plan = [], []
    for (api, dkind, okind, inf, adv, it, inplace, rules, embed) in space:
        if api == "rules" and not adv:
            continue
        for fault in faults:
            plan.append((api, dkind, okind, inf, adv, it, inplace, rules, embed, fault))
    for k, (api, dkind, okind, inf, adv, it, inplace, rules, embed, fault) in enumerate(plan):
        if fault is None:
            lines.append("c%d pipeline %s %d %d %d %d %d %d %d" % (k, "r" if api == "rules" else "v", okind != "none", dkind != "graph",
                                                                   inf != "none", adv or api == "rules", inplace, embed, rules != "none"))
    replies = ctx.driver.ask(lines)
    empty_ontology_family(rng, out, sgs)
    for k, (api, dkind, okind, inf, adv, it, inplace, rules, embed, fault) in enumerate(plan):
        sg = sgs[rules]
        data = make_data(rng, dkind, embed=list(sg) if embed else None)
        ont = make_ont(okind)
        before_d, before_o = snapshot(data), snapshot(ont)
        cfg = {"api": api, "data": dkind, "ont": okind, "inference": inf, "advanced": adv, "iterate_rules": it, "inplace": inplace,
               "rules_in_shapes": rules, "shapes_embedded_in_data": embed, "fault": fault}
        out.evaluations += 1
        kw = dict(shacl_graph=None if embed else sg, ont_graph=ont, inference=inf, inplace=inplace, iterate_rules=it)
        outcome = "ok"
        with Tracer(data, ont, fault, None if embed else sg) as tr:
            try:
                if api == "validate":
                    pyshacl.validate(data, advanced=adv, **kw)
                else:
                    res = pyshacl.shacl_rules(data, **kw)
                    if not inplace and res is data:
                        out.b_fail.append({"signature": "C08:rules-returned-callers-graph", "case": cfg})
            except Injected:
                outcome = "injected"
            except Exception as e:  # noqa
                outcome = exc_detail(e)
        after_d, after_o = snapshot(data), snapshot(ont)
        out.count("outcome:" + outcome)
        wrote = any(op[0].startswith("write") for op in tr.ops)
        if wrote:
            out.nontrivial.add((api, dkind, okind, inf, adv, it, inplace, fault))
        if not inplace:
            if after_d != before_d:
                out.b_fail.append({"signature": "C08:data-graph-modified", "case": cfg, "outcome": outcome,
                                   "added": [str(x) for x in list(after_d - before_d)[:4]], "removed": [str(x) for x in list(before_d - after_d)[:4]]})
            if after_o != before_o:
                out.b_fail.append({"signature": "C08:ontology-graph-modified", "case": cfg, "outcome": outcome,
                                   "added": [str(x) for x in list(after_o - before_o)[:4]]})
        elif after_o != before_o:
            out.b_fail.append({"signature": "C08:ontology-graph-modified", "case": cfg, "outcome": outcome,
                               "added": [str(x) for x in list(after_o - before_o)[:4]]})
        if fault is None and outcome == "ok":
            out.traces += 1
            got = tr.canonical()
            want = model_tokens(replies["c%d" % k])
            if got != want:
                out.a_mismatch.append({"case": cfg, "code": got, "model": want, "op": "pipeline"})
            if tr.validated is not None and api == "validate":
                tgt = replies["c%d" % k].split("target:")[1]
                names = {}
                for op in tr.ops:
                    if op[0] == "clone":
                        names[op[2]] = "fresh%d" % len(names)
                mt = {"fresh0": None}
                vv = names.get(tr.validated, tr.validated)
                # the model numbers fresh objects by pipeline position, the trace by creation order: compare kinds
                if (vv == "data") != (tgt == "data") and rules != "none" or (vv == "data" and tgt != "data" and not adv):
                    out.a_mismatch.append({"case": cfg, "code_validated": vv, "model_target": tgt, "op": "pipeline"})
        out.sample({"config": cfg, "ops": tr.canonical(), "outcome": outcome})


def empty_ontology_family(rng, out, sgs):
    """an ontology graph that is passed but holds no triple (Graph and Dataset): the mix-in has nothing to add, yet everything that
    writes afterwards (pre-inference, rules) must still work on a copy"""
    import pyshacl
    for okind in ("graph", "dataset"):
        for dkind in ("graph", "dataset"):
            for inf, adv, rules in (("rdfs", False, "none"), ("owlrl", False, "none"), ("both", True, "both"), ("none", True, "both"), ("none", True, "sparql"), ("none", True, "triple")):
                data = make_data(rng, dkind)
                ont = Graph() if okind == "graph" else Dataset()
                before = snapshot(data)
                cfg = {"api": "validate", "data": dkind, "ont": okind + ":empty", "inference": inf, "advanced": adv, "inplace": False, "rules": rules}
                out.evaluations += 1
                try:
                    pyshacl.validate(data, shacl_graph=sgs[rules], ont_graph=ont, inference=inf, advanced=adv, inplace=False)
                    outcome = "ok"
                except Exception as e:  # noqa
                    outcome = type(e).__name__
                after = snapshot(data)
                out.count("empty-ont:" + outcome)
                if after != before:
                    out.b_fail.append({"signature": "C08:data-graph-modified", "case": cfg, "outcome": outcome,
                                       "added": [str(x) for x in list(after - before)[:4]]})
