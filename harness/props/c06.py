"""C06 — verdict, report graph and report text agree and the report is well-formed.

(B) on the real return triple of validate(): the three renderings of the verdict agree, the verdict formula, the text's result
    count equals the number of sh:result links, every result node is well-formed, its terms denote terms of the validated
    graphs, blank-node terms come with a copy of their description.
(A) code vs Impl under the option combinations the model covers (in-memory evaluation, no inference): the results (`validate`
    op) and the assembled report — report graph up to blank-node labels, text header and block count (`report` op: Report.lean's
    create_validation_report / make_v_result / clone_blank_node / clone_list).
Inputs: the generators of C01/C02/C04 x all 2^5 combinations of advanced, abort_on_first, allow_infos, allow_warnings,
sparql_mode x inference {none, rdfs} x {Graph, Dataset}.
"""
import itertools
import random
import re

import rdflib
from rdflib import BNode, Dataset, Graph, Literal, URIRef
from rdflib.namespace import RDF

import reportcase
import shapegen
import vcase
import wire
from common import EX, SH, graph_from_triples, report_results
from props import c04

INFO, WARN = wire.tkey(SH.Info), wire.tkey(SH.Warning)


def description_copied(src: Graph, rg: Graph, node, rnode=None, depth=0):
    """the description of blank node `node` in src is present at `rnode` in rg: literal / IRI objects verbatim, blank-node
    objects as some blank node carrying (recursively, to depth 3) a copy of the nested description; lists member-wise.
    Returns a missing triple or None."""
    rnode = node if rnode is None else rnode
    if depth > 3:
        return None
    for p, o in src.predicate_objects(node):
        if not isinstance(o, BNode):
            if (rnode, p, o) not in rg:
                return (node, p, o)
        else:
            cands = [x for x in rg.objects(rnode, p) if isinstance(x, BNode)]
            if not cands:
                return (node, p, o)
            if depth < 3 and not any(description_copied(src, rg, o, x, depth + 1) is None for x in cands):
                return (node, p, o)
    return None


def check_report(out, case, sg, dg_terms, dg_graph, opts, conforms, rg, text):
    fails = []
    reports = list(rg.subjects(RDF.type, SH.ValidationReport))
    if len(reports) != 1:
        return [("C06:report-node-count", {"count": len(reports)})]
    rep = reports[0]
    lits = list(rg.objects(rep, SH.conforms))
    if len(lits) != 1 or not isinstance(lits[0], Literal) or lits[0].value is not conforms:
        fails.append(("C06:sh-conforms-literal", {"literals": [str(l) for l in lits], "verdict": conforms}))
    m = re.search(r"^Conforms: (True|False)$", text, re.M)
    if not m or (m.group(1) == "True") != conforms:
        fails.append(("C06:text-conforms-line", {"line": m.group(0) if m else None, "verdict": conforms}))
    links = list(rg.objects(rep, SH.result))
    m2 = re.search(r"^Results \((\d+)\):$", text, re.M)
    count = int(m2.group(1)) if m2 else 0
    if count != len(links):
        fails.append(("C06:text-count-vs-links", {"text": count, "links": len(links)}))
    if len(set(links)) != len(links):
        fails.append(("C06:duplicate-result-link", {}))
    waived = set()
    if opts.get("allow_infos"):
        waived.add(SH.Info)
    if opts.get("allow_warnings"):
        waived |= {SH.Info, SH.Warning}
    sevs = []
    sg_terms = set(sg.all_nodes()) | set(sg.predicates())
    for r in links:
        def vals(p):
            return list(rg.objects(r, p))
        if list(rg.objects(r, RDF.type)) != [SH.ValidationResult]:
            fails.append(("C06:result-type", {"types": [str(t) for t in rg.objects(r, RDF.type)]}))
        for p in (SH.focusNode, SH.resultSeverity, SH.sourceConstraintComponent, SH.sourceShape):
            if len(vals(p)) != 1:
                fails.append(("C06:result-cardinality:" + str(p).rsplit("#", 1)[-1], {"count": len(vals(p))}))
        for p in (SH.value, SH.resultPath):
            if len(vals(p)) > 1:
                fails.append(("C06:result-cardinality:" + str(p).rsplit("#", 1)[-1], {"count": len(vals(p))}))
        sevs += vals(SH.resultSeverity)
        for f in vals(SH.focusNode):
            if f not in dg_terms and f not in sg_terms:
                fails.append(("C06:focus-not-a-term-of-the-graphs", {"focus": str(f)}))
            if isinstance(f, BNode):
                miss = description_copied(dg_graph, rg, f)
                if miss:
                    fails.append(("C06:bnode-focus-description-missing", {"triple": [str(x) for x in miss]}))
        for v in vals(SH.value):
            if v not in dg_terms and v not in sg_terms:
                fails.append(("C06:value-not-a-term-of-the-graphs", {"value": str(v)}))
            if isinstance(v, BNode):
                miss = description_copied(dg_graph, rg, v)
                if miss:
                    fails.append(("C06:bnode-value-description-missing", {"triple": [str(x) for x in miss]}))
        for s in vals(SH.sourceShape):
            if s not in sg_terms:
                fails.append(("C06:shape-not-in-shapes-graph", {"shape": str(s)}))
            if isinstance(s, BNode):
                miss = description_copied(sg, rg, s)
                if miss:
                    fails.append(("C06:bnode-shape-description-missing", {"triple": [str(x) for x in miss]}))
        for pth in vals(SH.resultPath):
            if isinstance(pth, BNode):
                miss = description_copied(sg, rg, pth)
                if miss:
                    fails.append(("C06:bnode-path-description-missing", {"triple": [str(x) for x in miss]}))
            elif pth not in sg_terms and pth not in dg_terms:
                fails.append(("C06:path-not-a-term-of-the-graphs", {"path": str(pth)}))
    expect = all(s in waived for s in sevs)
    if conforms != expect:
        fails.append(("C06:verdict-formula", {"verdict": conforms, "severities": sorted(set(str(s) for s in sevs)), "options": opts}))
    return fails


def report_directed(k):
    """inputs aimed at the description copies: blank-node chains deeper than the clone depth, list heads as value nodes and as
    result paths, an empty data graph (descriptions then come from the shapes graph), nested details, list nodes with extras"""
    from rdflib.collection import Collection
    sg, dg = Graph(), Graph()
    S = EX["RS%d" % k]
    sg.add((S, RDF.type, SH.NodeShape))
    kind = k % 6

    def value_shape():
        ps = BNode()
        sg.add((S, SH.property, ps)); sg.add((ps, SH.path, EX.p0)); sg.add((ps, SH.nodeKind, SH.IRI)); sg.add((S, SH.targetNode, EX.n0))
    if kind == 0:
        value_shape()
        v = BNode(); dg.add((EX.n0, EX.p0, v)); cur = v
        for d in range(k // 6 + 1):
            nxt = BNode(); dg.add((cur, EX.p1, nxt)); dg.add((cur, EX.p2, Literal("level %d" % d))); cur = nxt
        dg.add((cur, EX.p2, EX.n1))
    elif kind == 1:
        value_shape()
        l = BNode(); Collection(dg, l, [EX.n1, Literal("x"), BNode(), EX.n2][: k // 6 % 4 + 1]); dg.add((EX.n0, EX.p0, l))
        for b in list(dg.objects(None, RDF.first)):
            if isinstance(b, BNode):
                dg.add((b, EX.p1, Literal("member")))
    elif kind == 2:
        sg.add((S, SH.targetNode, EX.n0)); sg.add((S, SH["class"], EX.C0))
        if k // 6 % 2:
            sg.add((S, SH.targetNode, Literal("lit")))
    elif kind == 3:
        ps = BNode(); sg.add((S, SH.property, ps)); sg.add((S, SH.targetNode, EX.n0))
        l = BNode(); Collection(sg, l, [EX.p0, EX.p1])
        if k // 6 % 2:
            a = BNode(); sg.add((a, SH.alternativePath, l)); sg.add((ps, SH.path, a))
        else:
            sg.add((ps, SH.path, l))
        sg.add((ps, SH.minCount, Literal(3)))
        dg.add((EX.n0, EX.p0, EX.n1)); dg.add((EX.n1, EX.p1, EX.n2))
    elif kind == 4:
        ns = BNode(); sg.add((S, SH.node, ns)); sg.add((ns, SH["class"], EX.C0)); sg.add((ns, SH.nodeKind, SH.Literal)); sg.add((S, SH.targetSubjectsOf, EX.p0))
        dg.add((EX.n0, EX.p0, EX.n1)); b = BNode(); dg.add((b, EX.p0, Literal(1)))
    else:
        value_shape()
        l = BNode(); Collection(dg, l, [EX.n1, EX.n2, BNode()][: 2 + k // 12 % 2]); dg.add((l, EX.p1, Literal("extra"))); dg.add((EX.n0, EX.p0, l))
        if k // 6 % 2:      # a later cell carries statements too, one of them about a further blank node
            cell = dg.value(l, RDF.rest)
            other = BNode()
            dg.add((cell, EX.p1, Literal("about the second cell"))); dg.add((cell, EX.p2, other)); dg.add((other, EX.p1, EX.n1))
    return sg, dg


def shared_value(k):
    """several focus nodes reach the same failing value node through a property shape that carries a nested shape: equal
    results for different focus nodes are still different results (own result node, own sh:result link, own text block)"""
    sg, dg = Graph(), Graph()
    PS = EX["SVP%d" % k]
    # the property shape has the targets itself: one evaluation holds all its focus nodes, which share the value node
    sg.add((PS, RDF.type, SH.PropertyShape)); sg.add((PS, SH.targetSubjectsOf, EX.p0)); sg.add((PS, SH.path, EX.p0))
    if k // 4 % 2:      # ... and the same again one level down, below a node shape
        S = EX["SV%d" % k]
        sg.add((S, RDF.type, SH.NodeShape)); sg.add((S, SH.targetNode, EX.holder0)); sg.add((S, SH.property, PS))
    kind = k % 4
    if kind == 0:
        q = BNode(); sg.add((PS, SH.property, q)); sg.add((q, SH.path, EX.p1)); sg.add((q, SH.minCount, Literal(1)))
    elif kind == 1:
        n = EX["SVN%d" % k]; sg.add((PS, SH.node, n)); sg.add((n, RDF.type, SH.NodeShape)); sg.add((n, SH["class"], EX.C0))
    elif kind == 2:
        q = BNode(); sg.add((PS, SH.property, q)); sg.add((q, SH.path, EX.p1)); sg.add((q, SH.datatype, rdflib.XSD.integer))
        dg.add((EX.shared, EX.p1, Literal("not a number")))
    else:
        q = EX["SVQ%d" % k]; sg.add((PS, SH.property, q)); sg.add((q, SH.path, EX.p1)); sg.add((q, SH.minCount, Literal(1)))
        sg.add((q, SH.severity, SH.Warning)); sg.add((q, SH.message, Literal("needs p1")))
    for j in range(2 + k // 4 % 2):
        dg.add((EX["holder%d" % j], EX.p0, EX.shared))
    if k // 8 % 2:
        dg.add((EX.holder0, EX.p0, EX.other))
    return sg, dg


def run(ctx, out):
    rng = random.Random(ctx.seed * 67867967 + 6)
    quick = ctx.tier == "quick"
    cases = c04.gen_cases(rng, 40 if quick else 160, 3)
    for _ in range(50 if quick else 200):
        data = shapegen.gen_data(rng)
        gen = shapegen.ShapeGen(rng, data)
        for _ in range(rng.randint(1, 3)):
            gen.shape()
        cases.append(("core", gen.g, graph_from_triples(data)))
    # blank nodes of the data graph that carry the same labels as blank nodes of the shapes graph (as JSON-LD / hext documents and
    # graphs built with explicit ids do): both kinds reach the report, each must come with its own description
    shared = []
    for label, sg, dg in cases:
        sb = sorted(set(x for x in sg.subjects(SH.path, None) if isinstance(x, BNode)) | set(x for x in sg.objects(None, SH.path) if isinstance(x, BNode)), key=str)
        db = sorted(set(x for t in dg for x in (t[0], t[2]) if isinstance(x, BNode)), key=str)
        if sb and db and len(shared) < (12 if quick else 150):
            m = {d: sb[k % len(sb)] for k, d in enumerate(db)}
            h = Graph()
            for a, b, c in dg:
                h.add((m.get(a, a), b, m.get(c, c)))
            shared.append(("shared-labels:" + label, sg, h))
    cases += shared
    # directed: the anonymous property shape and a blank value / focus node of the data graph carry the same label
    from rdflib.namespace import RDF as _RDF
    for k in range(6 if quick else 30):
        lab = "b%d" % k
        sgd, dgd = Graph(), Graph()
        S, ps = EX["DS%d" % k], BNode(lab)
        sgd.add((S, _RDF.type, SH.NodeShape)); sgd.add((S, SH.targetSubjectsOf, EX.p0)); sgd.add((S, SH.property, ps))
        sgd.add((ps, SH.path, EX.p0)); sgd.add((ps, SH.nodeKind, SH.IRI))
        if k % 2:
            sgd.add((S, SH.nodeKind, SH.IRI))           # the blank focus node itself is reported too
        v = BNode(lab)
        dgd.add((EX.n0 if k % 3 else BNode("other"), EX.p0, v)); dgd.add((v, EX.p1, Literal("described %d" % k))); dgd.add((v, EX.p2, EX.n1))
        if k % 2:
            dgd.add((v, EX.p0, Literal(k)))
        cases.append(("shared-labels:directed", sgd, dgd))
    for k in range(12 if quick else 60):
        cases.append(("report-directed:%d" % (k % 6), *report_directed(k)))
    for k in range(8 if quick else 32):
        cases.append(("shared-value:%d" % (k % 4), *shared_value(k)))
    combos = list(itertools.product((False, True), repeat=5))   # advanced, abort, infos, warnings, sparql
    out.rule = ("Core + composition generators x all 32 combinations of (advanced, abort_on_first, allow_infos, allow_warnings, sparql_mode) "
                "[sampled 10 per case in quick, all in thorough] + inference {none, rdfs} x {Graph, Dataset}; non-trivial = distinct "
                "(case, options) whose report has >=1 result and at least one blank-node term")
    plan = []
    for i, (label, sg, dg) in enumerate(cases):
        cs = combos if not quick else rng.sample(combos, 10)
        for (adv, ab, ai, aw, sp) in cs:
            plan.append((i, {"advanced": adv, "abort_on_first": ab, "allow_infos": ai, "allow_warnings": aw, "sparql_mode": sp}, "none", "graph"))
        plan.append((i, {"allow_warnings": rng.random() < 0.5}, "rdfs", "graph"))
        plan.append((i, {"abort_on_first": rng.random() < 0.5, "allow_infos": rng.random() < 0.5}, "none", "dataset"))
    lines = []
    for n, (i, opts, inf, cont) in enumerate(plan):
        if inf == "none" and not opts.get("sparql_mode") and not opts.get("abort_on_first"):
            lines.append(vcase.model_line("c%d" % n, cases[i][1], cases[i][2], opts))
            lines.append(reportcase.model_line("r%d" % n, cases[i][1], cases[i][2], opts))
    replies = ctx.driver.ask(lines)
    for n, (i, opts, inf, cont) in enumerate(plan):
        label, sg, dg = cases[i]
        out.evaluations += 1
        data = dg
        if cont == "dataset":
            ds = Dataset()
            g1 = ds.graph(EX.g1)
            for k, t in enumerate(dg):
                (g1 if k % 2 else ds.default_context).add(t)
            data = ds
        kw = dict(opts)
        if inf != "none":
            kw["inference"] = inf
        code = vcase.run_code(sg, data, kw)
        case = vcase.describe(sg, dg, dict(kw, container=cont), label=label)
        if ("c%d" % n) in replies:
            out.traces += 1
            model = vcase.parse_model(replies["c%d" % n])
            d = vcase.compare(code, model, sg, with_detail=True)
            if d:
                out.a_mismatch.append({"case": case, "diff": d[:1000], "op": "validate"})
            if vcase.unspecified_mask(sg):
                out.count("report_not_compared_unspecified_ordering")
            else:
                d2 = reportcase.compare(code, reportcase.parse_reply(replies["r%d" % n]), sg)
                out.count("report_graph_compared")
                if d2:
                    out.a_mismatch.append({"case": case, "diff": d2[:1000], "op": "report"})
        if code[0] == "err":
            out.count("code_err:" + code[1])
            continue
        if code[0] == "malformed-report":
            out.b_fail.append({"signature": "C06:report-node-count", "case": case})
            continue
        _, conforms, res, rg, text = code
        dg_terms = set(dg.all_nodes()) | set(dg.predicates())
        if inf != "none":
            dg_terms = None
        fails = check_report(out, case, sg, dg_terms if dg_terms is not None else AnyTerm(), dg, kw, conforms, rg, text)
        for sig, detail in fails[:2]:
            out.b_fail.append({"signature": sig, "case": case, "detail": detail})
        has_b = any(isinstance(t, BNode) for r in rg.objects(None, SH.result) for p in (SH.focusNode, SH.value, SH.resultPath, SH.sourceShape) for t in rg.objects(r, p))
        if res and has_b:
            out.nontrivial.add((i, tuple(sorted(kw.items()))))
        out.count("results:%s" % ("0" if not res else "1+"))
        out.count("conforms:%s" % conforms)
        out.sample({"label": label, "options": kw, "conforms": conforms, "results": len(res)})


class AnyTerm:
    def __contains__(self, x):
        return True
