"""C02 — a shape validates exactly the focus nodes its target declarations select.

Observation as the property prescribes: a constraint that fails on every node (sh:in (ex:never)), so the
sh:focusNode multiset of the report *is* the focus set (multiplicity 1 = validated once).
(A) code vs Impl `focusNodes` through the `validate` op   (B) code vs W3C reference `Ref.targets`
"""
import random
from collections import Counter

from rdflib import BNode, Graph, Literal, URIRef
from rdflib.collection import Collection
from rdflib.namespace import RDF, RDFS

import oracle_core
import shapegen
import vcase
import wire
from common import CLASSES, EX, NODES, PREDS, SH, graph_from_triples

OWL_CLASS = URIRef("http://www.w3.org/2002/07/owl#Class")


def gen_case(rng, i):
    data = shapegen.gen_data(rng, literal_bias=0.35)
    # more class structure: chains, cycles, self loops, instances of subclasses
    extra = []
    cs = CLASSES + [EX.S1, EX.S2]
    for _ in range(rng.randint(1, 5)):
        extra.append((rng.choice(cs), RDFS.subClassOf, rng.choice(cs)))
    for _ in range(rng.randint(1, 5)):
        extra.append((rng.choice(NODES + shapegen.BNODES[:2]), RDF.type, rng.choice(cs)))
    data = sorted(set(data) | set(extra), key=lambda t: tuple(map(str, t)))
    sg = Graph()
    n_shapes = rng.randint(1, 3)
    for k in range(1, n_shapes + 1):
        s = EX["S%d" % k]
        is_prop = rng.random() < 0.3
        r = rng.random()
        if r < 0.8:
            sg.add((s, RDF.type, SH.PropertyShape if is_prop else SH.NodeShape))
        elif is_prop:
            pass   # implicitly a property shape (has sh:path and a target)
        if is_prop:
            sg.add((s, SH.path, rng.choice(PREDS)))
            sg.add((s, SH.minCount, Literal(99)))      # fails on every focus node, once
        else:
            lst = BNode("never%d" % k)
            Collection(sg, lst, [EX.never])
            sg.add((s, SH["in"], lst))                  # fails on every focus node, once
        kinds = rng.sample(["node", "class", "subjectsOf", "objectsOf", "implicit", "none"], rng.randint(1, 3))
        for kd in kinds:
            if kd == "node":
                for f in rng.sample(NODES + [EX.absent, Literal(2), Literal("abc", lang="en")], rng.randint(1, 3)):
                    sg.add((s, SH.targetNode, f))
            elif kd == "class":
                for _ in range(rng.randint(1, 2)):
                    sg.add((s, SH.targetClass, rng.choice(cs)))
            elif kd == "subjectsOf":
                sg.add((s, SH.targetSubjectsOf, rng.choice(PREDS + [RDF.type])))
            elif kd == "objectsOf":
                sg.add((s, SH.targetObjectsOf, rng.choice(PREDS + [RDFS.subClassOf])))
            elif kd == "implicit":
                meta = rng.choice(["rdfs", "owl", "chain1", "chain2", "nochain"])
                if meta == "rdfs":
                    sg.add((s, RDF.type, RDFS.Class))
                elif meta == "owl":
                    sg.add((s, RDF.type, OWL_CLASS))
                elif meta == "chain1":
                    sg.add((s, RDF.type, EX.Meta)); sg.add((EX.Meta, RDFS.subClassOf, RDFS.Class))
                elif meta == "chain2":
                    sg.add((s, RDF.type, EX.Meta2)); sg.add((EX.Meta2, RDFS.subClassOf, EX.Meta)); sg.add((EX.Meta, RDFS.subClassOf, RDFS.Class))
                else:
                    sg.add((s, RDF.type, EX.NotAMeta))
                if (s, RDF.type, SH.NodeShape) not in sg and (s, RDF.type, SH.PropertyShape) not in sg:
                    sg.add((s, RDF.type, SH.PropertyShape if is_prop else SH.NodeShape))
    return sg, graph_from_triples(data)


def run(ctx, out):
    rng = random.Random(ctx.seed * 104729 + 2)
    n = 500 if ctx.tier == "quick" else 8000
    out.rule = ("1-3 shapes with any mix of the five target kinds (explicitly, implicitly typed and metaclass-chained shapes), each with a "
                "constraint failing once per focus node; data with subclass chains/cycles/self-loops, literal and blank-node objects, absent "
                "target nodes; non-trivial = distinct case with >=1 focus node and >=1 data node not in the focus set")
    cases = [gen_case(rng, i) for i in range(n)]
    replies = ctx.driver.ask(vcase.model_line("c%d" % i, sg, dg) for i, (sg, dg) in enumerate(cases))
    for i, (sg, dg) in enumerate(cases):
        out.evaluations += 1
        out.traces += 1
        code = vcase.run_code(sg, dg)
        model = vcase.parse_model(replies["c%d" % i])
        case = vcase.describe(sg, dg)
        d = vcase.compare(code, model, sg, with_detail=False)
        if d:
            out.a_mismatch.append({"case": case, "diff": d, "op": "validate"})
        if code[0] != "ok":
            out.b_fail.append({"signature": "C02:exception:" + code[1], "case": case, "got": code[1]})
            continue
        got = Counter((r["shape"], r["focus"]) for r in code[2])
        ref = oracle_core.Ref(sg, dg)
        want = Counter()
        for s in ref.shapes():
            if ref.deactivated(s):
                continue
            for f in ref.targets(s):
                want[(wire.tkey(s), wire.tkey(f))] += 1
        if got != want:
            missing = list((want - got).elements())[:3]
            extra = list((got - want).elements())[:3]
            dup = [k for k, c in got.items() if c > 1][:3]
            sig = "C02:duplicated" if dup and not missing and set(got) == set(want) else "C02:focus-set:" + ("missing" if missing else "") + ("extra" if extra else "")
            out.b_fail.append({"signature": sig, "case": case, "missing": missing, "extra": extra, "duplicated": dup})
        nodes = set(wire.tkey(t) for t in dg.all_nodes())
        if got and (nodes - set(f for _s, f in got)):
            out.nontrivial.add(hash(case["shapes_ttl"] + case["data_nt"]))
        out.count("focus_nodes:%s" % ("0" if not got else "1-3" if len(got) < 4 else "4+"))
        out.sample({"shapes": case["shapes_ttl"][:500], "focus": sorted(set(f for _s, f in got))[:6]})
