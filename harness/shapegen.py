"""Grammar-directed generation of data graphs and (mostly valid) Core shapes graphs.

Everything random comes from the `rng` passed in; parameters are drawn relative to the data
(boundary-aware), because off-by-one and wrong-operator edits are only visible at the boundary.
"""
import logging

from rdflib import BNode, Graph, Literal, URIRef
from rdflib.collection import Collection
from rdflib.namespace import RDF, RDFS, XSD

import pathgen
from common import CLASSES, EX, NODES, PREDS, SH

logging.getLogger("rdflib.term").setLevel(logging.CRITICAL)

LANGSTRING = URIRef("http://www.w3.org/1999/02/22-rdf-syntax-ns#langString")


def lit_pool():
    L = Literal
    return [
        L(1), L(2), L(5), L(-3), L("2.5", datatype=XSD.decimal), L("5.0", datatype=XSD.decimal), L("2.0e0", datatype=XSD.double),
        L("5.5e0", datatype=XSD.double), L(True), L(False),
        L("2020-01-01T00:00:00", datatype=XSD.dateTime), L("2021-06-01T12:00:00", datatype=XSD.dateTime),
        L("2020-06-01T00:00:00Z", datatype=XSD.dateTime), L("2019-03-03T00:00:00+02:00", datatype=XSD.dateTime),
        L("2020-01-01", datatype=XSD.date), L("2021-05-05", datatype=XSD.date),
        L("a"), L("abc"), L("b"), L(""), L("abc", datatype=XSD.string), L("Abc d"),
        L("hello", lang="en"), L("bonjour", lang="fr"), L("hi", lang="en-US"), L("x", lang="en-us-posix"), L("hello", lang="EN"),
        L("abc", datatype=XSD.integer), L("2020-13-01", datatype=XSD.date), L("x", datatype=EX.dt),
        L("1.2.3", datatype=XSD.decimal), L("fast", datatype=XSD.double), L("yesterday", datatype=XSD.dateTime),
        L("back\\slash"), L("br{a}ce $this ?x"), L("q\"uote'"), L("line\nbreak"), L("ré.*(sumé"), L("grp\\1"),
    ]


POOL = lit_pool()
NUMS = [l for l in POOL if isinstance(l.value, (int, float)) and not isinstance(l.value, bool) or str(l.datatype) == str(XSD.decimal)]
BNODES = [BNode("d1"), BNode("d2"), BNode("d3")]


def gen_data(rng, n=None, literal_bias=0.5):
    """random data graph: typed nodes, subclass chains/cycles, literal / bnode / node objects"""
    n = n if n is not None else rng.choice((4, 8, 12, 18, 25))
    ts = set()
    subs = NODES + BNODES[:2]
    for _ in range(n):
        s = rng.choice(subs)
        p = rng.choice(PREDS)
        r = rng.random()
        if r < literal_bias:
            o = rng.choice(POOL)
        elif r < literal_bias + 0.1:
            o = rng.choice(BNODES)
        else:
            o = rng.choice(NODES)
        ts.add((s, p, o))
    for _ in range(rng.randint(0, 5)):
        ts.add((rng.choice(subs), RDF.type, rng.choice(CLASSES)))
    for _ in range(rng.randint(0, 4)):
        ts.add((rng.choice(CLASSES), RDFS.subClassOf, rng.choice(CLASSES)))  # chains, cycles, self loops
    if rng.random() < 0.15:
        ts.add((rng.choice(NODES), RDF.type, RDFS.Resource))
    return sorted(ts, key=lambda t: tuple(str(x) for x in t))


def values_of(data, f, p):
    return [o for s, pp, o in data if s == f and pp == p]


class ShapeGen:
    def __init__(self, rng, data, named_prefix="S"):
        self.rng, self.data = rng, data
        self.g = Graph()
        self.n = 0
        self.named_prefix = named_prefix
        self.shapes = []          # (node, is_prop)

    def new_node(self, named):
        self.n += 1
        return EX["%s%d" % (self.named_prefix, self.n)] if named else BNode("sh%d" % self.n)

    def lst(self, items):
        head = BNode("l%d" % self.n + "_%d" % len(self.g))
        Collection(self.g, head, list(items))
        return head

    # parameter values relative to the data ------------------------------------------------------
    def some_values(self):
        vs = [o for _s, p, o in self.data if p in PREDS]
        return vs or [Literal(1)]

    def bound(self):
        rng = self.rng
        vs = [v for v in self.some_values() if isinstance(v, Literal)]
        if vs and rng.random() < 0.7:
            v = rng.choice(vs)
            if isinstance(v.value, int) and not isinstance(v.value, bool) and rng.random() < 0.5:
                return Literal(v.value + rng.choice((-1, 0, 1)))
            return v
        return rng.choice(POOL)

    def core_constraint(self, s, is_prop, path_pred, only=None):
        """add one random Core (non shape-based) constraint to shape s"""
        rng, g = self.rng, self.g
        kinds = ["class", "datatype", "nodeKind", "minIn", "maxIn", "minEx", "maxEx", "minLength", "maxLength", "pattern", "languageIn",
                 "hasValue", "in", "closed"]
        if is_prop:
            kinds += ["minCount", "maxCount", "uniqueLang", "equals", "disjoint", "lessThan", "lessThanOrEquals"]
        else:
            kinds += ["equals", "disjoint"]
        k = only or rng.choice(kinds)
        vals = self.some_values()
        if k == "class":
            g.add((s, SH["class"], rng.choice(CLASSES)))
        elif k == "datatype":
            dts = [XSD.string, XSD.integer, XSD.decimal, XSD.double, XSD.boolean, XSD.dateTime, XSD.date, LANGSTRING, EX.dt]
            if (s, SH.datatype, None) not in g:
                g.add((s, SH.datatype, rng.choice(dts)))
        elif k == "nodeKind":
            if (s, SH.nodeKind, None) not in g:
                g.add((s, SH.nodeKind, rng.choice([SH.IRI, SH.BlankNode, SH.Literal, SH.BlankNodeOrIRI, SH.BlankNodeOrLiteral, SH.IRIOrLiteral])))
        elif k in ("minIn", "maxIn", "minEx", "maxEx"):
            pred = {"minIn": SH.minInclusive, "maxIn": SH.maxInclusive, "minEx": SH.minExclusive, "maxEx": SH.maxExclusive}[k]
            g.add((s, pred, self.bound()))
        elif k in ("minLength", "maxLength"):
            lens = [len(str(v)) for v in vals if not isinstance(v, BNode)] or [3]
            n = max(0, rng.choice(lens) + rng.choice((-1, 0, 1)))
            if k == "minLength" and n == 0:
                n = 1   # blank nodes under sh:minLength 0 are left unspecified
            if (s, SH[k], None) not in g:
                g.add((s, SH[k], Literal(n)))
        elif k == "pattern":
            pats = ["^a", "b", "c$", "^http", "n[0-3]$", "\\.", "^$", "(?:x|y)", "A", "l+o", "T", "^true$", "e\\+0", " ", "^[0-9-]+T[0-9:]+", "^5\\.5$"]
            if (s, SH.pattern, None) not in g or rng.random() < 0.3:
                g.add((s, SH.pattern, Literal(rng.choice(pats))))
            if (s, SH.flags, None) not in g and rng.random() < 0.3:
                g.add((s, SH.flags, Literal(rng.choice(["i", "m", "im"]))))
        elif k == "languageIn":
            if (s, SH.languageIn, None) not in g:
                g.add((s, SH.languageIn, self.lst([Literal(x) for x in rng.sample(["en", "fr", "en-US", "de", "EN-us", "*"], rng.randint(1, 3))])))
        elif k == "hasValue":
            g.add((s, SH.hasValue, rng.choice(vals + NODES[:2])))
        elif k == "in":
            if (s, SH["in"], None) not in g:
                pool = vals + NODES[:3] + [Literal(1), Literal("1", datatype=XSD.decimal), Literal("a", datatype=XSD.string)]
                g.add((s, SH["in"], self.lst(rng.sample(pool, min(len(pool), rng.randint(0, 4))))))
        elif k == "closed":
            if (s, SH.closed, None) not in g:
                g.add((s, SH.closed, Literal(rng.random() < 0.85)))
                if rng.random() < 0.5:
                    g.add((s, SH.ignoredProperties, self.lst(rng.sample(PREDS + [RDF.type], rng.randint(0, 2)))))
                if rng.random() < 0.5:
                    ps = self.new_node(False)
                    g.add((s, SH.property, ps))
                    g.add((ps, SH.path, rng.choice(PREDS)))
        elif k in ("minCount", "maxCount"):
            if (s, SH[k], None) not in g:
                foci = set(x for x, _p, _o in self.data)
                counts = [len(set(values_of(self.data, f, path_pred))) for f in foci] if path_pred is not None else [1]
                n = max(0, rng.choice(counts or [1]) + rng.choice((-1, 0, 1)))
                g.add((s, SH[k], Literal(n)))
        elif k == "uniqueLang":
            if (s, SH.uniqueLang, None) not in g:
                g.add((s, SH.uniqueLang, Literal(rng.random() < 0.85)))
        elif k in ("equals", "disjoint", "lessThan", "lessThanOrEquals"):
            g.add((s, SH[k], rng.choice(PREDS)))
        return k

    def targets(self, s, force=None):
        rng, g = self.rng, self.g
        kinds = force or rng.sample(["node", "class", "subjectsOf", "objectsOf", "implicit"], rng.randint(1, 2))
        for k in kinds:
            if k == "node":
                for f in rng.sample(NODES + [EX.absent, Literal(2), Literal("abc")], rng.randint(1, 3)):
                    g.add((s, SH.targetNode, f))
            elif k == "class":
                g.add((s, SH.targetClass, rng.choice(CLASSES)))
            elif k == "subjectsOf":
                g.add((s, SH.targetSubjectsOf, rng.choice(PREDS)))
            elif k == "objectsOf":
                g.add((s, SH.targetObjectsOf, rng.choice(PREDS)))
            elif k == "implicit" and isinstance(s, URIRef):
                g.add((s, RDF.type, rng.choice([RDFS.Class, URIRef("http://www.w3.org/2002/07/owl#Class")])))

    def shape(self, is_prop=None, named=True, n_constraints=None, with_targets=True, complex_path=0.2, severity=True, messages=True):
        rng, g = self.rng, self.g
        if is_prop is None:
            is_prop = rng.random() < 0.6
        s = self.new_node(named)
        g.add((s, RDF.type, SH.PropertyShape if is_prop else SH.NodeShape))
        path_pred = None
        if is_prop:
            if rng.random() < complex_path:
                a = pathgen.rand_path(rng, PREDS[:3], 2)
                g.add((s, SH.path, pathgen.encode(g, a)))
                path_pred = a[1] if a[0] == "p" else None
            else:
                path_pred = rng.choice(PREDS)
                g.add((s, SH.path, path_pred))
        if with_targets:
            self.targets(s)
        if severity and rng.random() < 0.4:
            g.add((s, SH.severity, rng.choice([SH.Violation, SH.Warning, SH.Info, EX.CustomSeverity])))
        if messages and rng.random() < 0.3:
            g.add((s, SH.message, rng.choice(POOL[16:22] + POOL[-6:])))
            if rng.random() < 0.3:
                g.add((s, SH.message, Literal("zweite", lang="de")))
        if rng.random() < 0.07:
            g.add((s, SH.deactivated, Literal(True)))
        for _ in range(n_constraints if n_constraints is not None else rng.randint(1, 4)):
            self.core_constraint(s, is_prop, path_pred)
        self.shapes.append((s, is_prop))
        return s


class CompGen(ShapeGen):
    """non-recursive compositions of the logical / shape-based components over Core leaf shapes"""

    def leaf(self, is_prop=None, named=None):
        named = self.rng.random() < 0.5 if named is None else named
        return self.shape(is_prop=is_prop, named=named, n_constraints=self.rng.randint(1, 2), with_targets=False, complex_path=0.1)

    def decorate(self, s):
        rng, g = self.rng, self.g
        if rng.random() < 0.35:
            g.add((s, SH.severity, rng.choice([SH.Violation, SH.Warning, SH.Info, EX.CustomSeverity])))
        if rng.random() < 0.25:
            g.add((s, SH.message, rng.choice(POOL[16:22])))
        if rng.random() < 0.08:
            g.add((s, SH.deactivated, Literal(True)))

    def composite(self, depth, want_prop=None, named=None):
        """returns a shape node of nesting depth <= depth; want_prop forces node (False) / property (True) shape"""
        rng, g = self.rng, self.g
        if depth <= 0 or rng.random() < 0.15:
            return self.leaf(is_prop=want_prop, named=named)
        is_prop = rng.random() < 0.4 if want_prop is None else want_prop
        named = rng.random() < 0.5 if named is None else named
        s = self.new_node(named)
        g.add((s, RDF.type, SH.PropertyShape if is_prop else SH.NodeShape))
        if is_prop:
            g.add((s, SH.path, rng.choice(PREDS)))
        self.decorate(s)
        ops = ["not", "and", "or", "xone", "node", "property"] + (["qualified", "qualified"] if is_prop else ["qsiblings"])
        for _ in range(rng.choice((1, 1, 2))):
            op = rng.choice(ops)
            if op == "not":
                g.add((s, SH["not"], self.composite(depth - 1)))
            elif op in ("and", "or", "xone"):
                members = [self.composite(depth - 1) for _ in range(rng.choice((1, 2, 2, 3)))]
                if rng.random() < 0.1:
                    members.append(members[0])      # the same member twice
                g.add((s, SH[op], self.lst(members)))
            elif op == "node":
                g.add((s, SH.node, self.composite(depth - 1, want_prop=False)))
            elif op == "property":
                g.add((s, SH.property, self.composite(depth - 1, want_prop=True)))
            elif op == "qualified":
                if (s, SH.qualifiedValueShape, None) in g:
                    continue
                g.add((s, SH.qualifiedValueShape, self.composite(depth - 1)))
                vals = [len(set(values_of(self.data, f, g.value(s, SH.path)))) for f in set(x for x, _p, _o in self.data)] or [1]
                n = max(0, rng.choice(vals) + rng.choice((-1, 0, 1)))
                if rng.random() < 0.7:
                    g.add((s, SH.qualifiedMinCount, Literal(n)))
                if rng.random() < 0.5 or (s, SH.qualifiedMinCount, None) not in g:
                    g.add((s, SH.qualifiedMaxCount, Literal(max(0, n + rng.choice((-1, 0, 1))))))
            elif op == "qsiblings":
                # sibling property shapes with disjoint qualified value shapes (the hand / thumb / finger pattern)
                p = rng.choice(PREDS)
                shared = self.composite(depth - 1) if rng.random() < 0.3 else None
                for k in range(rng.choice((2, 3))):
                    ps = self.new_node(rng.random() < 0.5)
                    g.add((s, SH.property, ps))
                    g.add((ps, SH.path, p))
                    g.add((ps, SH.qualifiedValueShape, shared if (shared is not None and k < 2) else self.composite(depth - 1)))
                    g.add((ps, SH.qualifiedValueShapesDisjoint, Literal(rng.random() < 0.8)))
                    g.add((ps, rng.choice([SH.qualifiedMinCount, SH.qualifiedMaxCount]), Literal(rng.randint(0, 2))))
        self.shapes.append((s, is_prop))
        return s

    def waivable_parent(self, depth=2):
        """a top-level shape of waivable severity whose constraint consults / forwards a child of stricter severity"""
        rng, g = self.rng, self.g
        s = self.new_node(True)
        g.add((s, RDF.type, SH.NodeShape))
        g.add((s, SH.severity, rng.choice([SH.Warning, SH.Info])))
        self.targets(s, force=["node", rng.choice(["class", "subjectsOf"])])
        op = rng.choice(["node", "property", "not", "and", "or", "xone", "node", "property"])
        if op in ("node", "property"):
            child = self.composite(depth - 1, want_prop=(op == "property"))
            g.add((s, SH[op], child))
        elif op == "not":
            child = self.composite(depth - 1)
            g.add((s, SH["not"], child))
        else:
            child = self.composite(depth - 1)
            g.add((s, SH[op], self.lst([child, self.composite(depth - 1)])))
        g.remove((child, SH.severity, None)); g.remove((child, SH.deactivated, None))
        if rng.random() < 0.5:
            g.add((child, SH.severity, rng.choice([SH.Violation, EX.CustomSeverity, SH.Warning])))
        self.shapes.append((s, False))
        return s

    def top(self, depth):
        s = self.composite(depth, named=True)
        self.targets(s, force=self.rng.sample(["node", "class", "subjectsOf", "objectsOf"], self.rng.randint(1, 2)))
        self.g.remove((s, SH.deactivated, None))
        return s
