"""validate() cases: run the real code, build the driver line, parse and compare both outcomes."""
import re
from collections import Counter

import pyshacl
from rdflib import BNode, Graph, Literal, URIRef
from rdflib.namespace import RDF

import wire
from common import SH, exc_detail, report_results


def opts_tokens(opts):
    m = {"advanced": "advanced", "abort_on_first": "abort", "allow_infos": "infos", "allow_warnings": "warnings", "sparql_mode": "sparql"}
    toks = []
    for k, t in m.items():
        if k in opts:
            toks.append("%s=%d" % (t, 1 if opts[k] else 0))
    if "max_validation_depth" in opts:
        toks.append("maxdepth=%d" % opts["max_validation_depth"])
    return " ".join(toks)


def regex_table(sg: Graph, dg: Graph, extra_strings=()):
    """(pattern, flags∩{i,m}, string) -> bool computed with python `re` directly"""
    pats = []
    for s, p in sg.subject_objects(SH.pattern):
        if not isinstance(p, Literal):
            continue
        flags = ""
        for f in sg.objects(s, SH.flags):
            if isinstance(f, Literal):
                flags = "".join(sorted(set(c for c in str(f).lower() if c in "im")))
        pats.append((str(p), flags))
    if not pats:
        return []
    strings = set(extra_strings)
    for t in dg.all_nodes():
        if not isinstance(t, BNode):
            strings.add(str(t))
    for t in sg.objects(None, SH.targetNode):
        if not isinstance(t, BNode):
            strings.add(str(t))
    out = []
    for pat, flags in set(pats):
        fl = (re.I if "i" in flags else 0) | (re.M if "m" in flags else 0)
        try:
            rx = re.compile(pat, fl)
        except re.error:
            out.append((pat, flags, "%invalid-regex%", True))   # python's re rejects the pattern
            continue
        for st in strings:
            out.append((pat, flags, st, bool(rx.search(st))))
    return out


def flags_key(flags):
    # the model builds the flag string as dedup'ed characters in order of occurrence; order them canonically here
    return flags


def model_line(cid, sg: Graph, dg: Graph, opts=None, focus=(), use_shapes=(), rx=None, sparql=None):
    """sparql = (solutions, templates): solutions = [(constraint node, focus, [ {var: term} ... ])],
    templates = {constraint node: {"minus":.., "values":.., "service":.., "nested": [vars]|None, "asVar": str|None, "usesPath":.., "usesSG":..}}"""
    opts = opts or {}
    if rx is None:
        rx = regex_table(sg, dg, extra_strings=[str(f) for f in focus])
    with wire.case_cache():
        line = _model_line(cid, sg, dg, opts, focus, use_shapes, rx)
        if sparql is not None:
            sols, tmpl = sparql[0], sparql[1]
            vals = sparql[2] if len(sparql) > 2 else []
            toks = ["SPQ", str(len(sols))]
            for c, f, rows in sols:
                toks += [wire.term(c), wire.term(f), str(len(rows))]
                for row in rows:
                    items = sorted(row.items())
                    toks.append(str(len(items)))
                    for k, v in items:
                        toks += [wire.esc(k), wire.term(v)]
            toks += ["SPT", str(len(tmpl))]
            for c, t in tmpl.items():
                toks += [wire.term(c), "%d" % bool(t.get("minus")), "%d" % bool(t.get("values")), "%d" % bool(t.get("service")),
                         (",".join(t["nested"]) or ",") if t.get("nested") is not None else "-", t.get("asVar") or "-",
                         "%d" % bool(t.get("usesPath")), "%d" % bool(t.get("usesSG"))]
            toks += ["VAL", str(len(vals))]
            for v, shp, f, x, kind, ans in vals:
                toks += [wire.term(v), wire.term(shp), wire.term(f), wire.term(x)]
                if kind == "ask":
                    toks += ["A", "1" if ans else "0"]
                else:
                    toks += ["R", str(len(ans))]
                    for row in ans:
                        items = sorted(row.items())
                        toks.append(str(len(items)))
                        for k, t in items:
                            toks += [wire.esc(k), wire.term(t)]
            line += " " + " ".join(toks)
        return line


def _model_line(cid, sg, dg, opts, focus, use_shapes, rx):
    rx_toks = " ".join("%s %s %s %d" % (wire.esc(p), wire.esc(f) if f else "-", wire.esc(s), 1 if b else 0) for p, f, s, b in rx)
    return "%s validate %s FOCUS %s SHAPES %s SG %s DG %s RX %d %s" % (
        cid, opts_tokens(opts), wire.terms(focus), wire.terms(use_shapes), wire.graph(sg), wire.graph(dg), len(rx), rx_toks)


def _parse_result(toks, i):
    assert toks[i] == "R", toks[i : i + 3]
    focus, value, path, comp, shape, sev = toks[i + 1 : i + 7]
    i += 7
    nm = int(toks[i]); i += 1
    msgs = toks[i : i + nm]; i += nm
    nd = int(toks[i]); i += 1
    det = []
    for _ in range(nd):
        d, i = _parse_result(toks, i)
        det.append(d)
    src = toks[i]; i += 1
    k = lambda t: "-" if t == "-" else wire.tok_key(t)
    return {"focus": k(focus), "value": k(value), "path": k(path), "component": k(comp), "shape": k(shape), "severity": k(sev),
            "messages": sorted(wire.tok_key(m) for m in msgs), "detail": det, "source": k(src)}, i


def parse_model(reply):
    toks = reply.split()
    if toks[0] == "err":
        return ("err", toks[1])
    if toks[0] != "ok":
        return ("bad", reply[:200])
    conforms = toks[1] == "1"
    n = int(toks[2])
    i = 3
    res = []
    for _ in range(n):
        r, i = _parse_result(toks, i)
        res.append(r)
    return ("ok", conforms, res)


def code_result_dict(r):
    k = lambda vs: "|".join(sorted(wire.tkey(v) for v in vs)) if vs else "-"
    return {"focus": k(r["focus"]), "value": k(r["value"]), "path": k(r["path"]), "component": k(r["component"]), "shape": k(r["shape"]),
            "severity": k(r["severity"]), "messages": sorted(wire.tkey(m) for m in r["messages"]), "detail": [code_result_dict(d) for d in r["detail"]],
            "source": k(r.get("source", []))}


def run_code(sg: Graph, dg, opts=None, **kw):
    opts = dict(opts or {})
    opts.update(kw)
    try:
        conforms, rg, text = pyshacl.validate(dg, shacl_graph=sg, **opts)
    except Exception as e:  # noqa
        return ("err", exc_detail(e), e)
    if not isinstance(rg, Graph):
        return ("err", "ValidationFailure", rg)
    res = report_results(rg)
    if res is None:
        return ("malformed-report", conforms, rg, text)
    return ("ok", conforms, [code_result_dict(r) for r in res], rg, text)


def key_of(res, declared_msg_shapes, with_detail=True):
    """canonical hashable key; messages only when the source shape declares sh:message"""
    key = (res["focus"], res["value"], res["path"], res["component"], res["shape"], res["severity"], res.get("source", "-"))
    if res["shape"] in declared_msg_shapes or res.get("source", "-") in declared_msg_shapes:
        # sh:resultMessage values are triples of the report graph: a set (two templates that fill to the same literal give one)
        key += (tuple(sorted(set(res["messages"]))),)
    if with_detail:
        key += (tuple(sorted(key_of(d, declared_msg_shapes, with_detail) for d in res["detail"])),)
    return key


def declared_msg_shapes(sg: Graph):
    return set(wire.tkey(s) for s in sg.subjects(SH.message, None))


def multiset(results, dms, with_detail=True):
    return Counter(key_of(r, dms, with_detail) for r in results)


ORDERING = ("MinInclusive", "MinExclusive", "MaxInclusive", "MaxExclusive", "LessThan", "LessThanOrEquals")


def _is_lang(key):
    return key.startswith("L:") and key.split(":")[3] not in ("", "%;")


def unspecified_mask(sg):
    """result keys the properties leave unspecified: a language-tagged value under an ordering component whose
    other operand may be language-tagged too (ordering between two language-tagged strings)"""
    comps = set()
    for pred, name in ((SH.minInclusive, "MinInclusive"), (SH.minExclusive, "MinExclusive"), (SH.maxInclusive, "MaxInclusive"), (SH.maxExclusive, "MaxExclusive")):
        for s, b in sg.subject_objects(pred):
            if isinstance(b, Literal) and b.language:
                comps.add((wire.tkey(s), name))
    for pred, name in ((SH.lessThan, "LessThan"), (SH.lessThanOrEquals, "LessThanOrEquals")):
        for s in sg.subjects(pred, None):
            comps.add((wire.tkey(s), name))
    return comps


SHAPE_REFS = (SH.node, SH.property, SH["not"], SH.qualifiedValueShape)
LIST_REFS = (SH["and"], SH["or"], SH.xone)
COMPOSED = ("Not", "And", "Or", "Xone", "Node", "QualifiedMinCount", "QualifiedMaxCount", "QualifiedValueShape")


def dependent_shapes(sg, mask):
    """shapes whose conformance may depend on a masked comparison: every shape that refers (through sh:node, sh:property, sh:not,
    sh:qualifiedValueShape or a member of sh:and / sh:or / sh:xone), directly or indirectly, to the owner of a masked component"""
    if not mask:
        return set()
    parents = {}
    for pred in SHAPE_REFS:
        for s, o in sg.subject_objects(pred):
            parents.setdefault(wire.tkey(o), set()).add(wire.tkey(s))
    for pred in LIST_REFS:
        for s, l in sg.subject_objects(pred):
            try:
                for m in sg.items(l):
                    parents.setdefault(wire.tkey(m), set()).add(wire.tkey(s))
            except Exception:  # noqa
                pass
    # siblings of a qualified value shape count too (sh:qualifiedValueShapesDisjoint)
    for s, o in sg.subject_objects(SH.qualifiedValueShape):
        for parent in sg.subjects(SH.property, s):
            for ps in sg.objects(parent, SH.property):
                parents.setdefault(wire.tkey(o), set()).add(wire.tkey(ps))
    out, work = set(), [s for (s, _n) in mask]
    while work:
        x = work.pop()
        for p in parents.get(x, ()):
            if p not in out:
                out.add(p)
                work.append(p)
    return out


def drop_masked(results, mask, dependents=frozenset()):
    if not mask:
        return results, False
    out, dropped = [], False
    for r in results:
        name = r["component"].rsplit("#", 1)[-1].replace("ConstraintComponent", "")
        if (r["shape"], name) in mask and _is_lang(r["value"]):
            dropped = True
            continue
        if r["shape"] in dependents and name in COMPOSED:
            dropped = True
            continue
        out.append(r)
    return out, dropped


def compare(code, model, sg, with_detail=True):
    """None when code and model agree on the observables, else a short description"""
    if code[0] == "err":
        if model[0] != "err" or model[1] != code[1]:
            return "code raised %s, model %s" % (code[1], model[1] if model[0] == "err" else "returned a report")
        return None
    if model[0] != "ok":
        return "code returned a report, model %s" % (model[1],)
    mask = unspecified_mask(sg)
    deps = dependent_shapes(sg, mask)
    cres, d1 = drop_masked(code[2], mask, deps)
    mres, d2 = drop_masked(model[2], mask, deps)
    if code[1] != model[1] and not (d1 or d2):
        return "verdict: code %s model %s" % (code[1], model[1])
    dms = declared_msg_shapes(sg)
    a, b = multiset(cres, dms, with_detail), multiset(mres, dms, with_detail)
    if a != b:
        only_code = list((a - b).elements())[:3]
        only_model = list((b - a).elements())[:3]
        return "results differ: only in code %s ; only in model %s" % (only_code, only_model)
    return None


def describe(sg, dg, opts=None, **extra):
    d = {"shapes_ttl": sg.serialize(format="turtle"), "data_nt": dg.serialize(format="nt"), "options": opts or {}}
    d.update(extra)
    return d
