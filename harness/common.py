"""Shared generator / canonicalisation helpers for all property modules."""
import random
import warnings

import rdflib
from rdflib import BNode, Graph, Literal, Namespace, URIRef
from rdflib.namespace import RDF, RDFS, XSD

import wire

warnings.filterwarnings("ignore")

SH = Namespace("http://www.w3.org/ns/shacl#")
EX = Namespace("http://ex.test/")

NODES = [EX["n%d" % i] for i in range(6)]
CLASSES = [EX["C%d" % i] for i in range(4)]
PREDS = [EX["p%d" % i] for i in range(4)]


def exc_family(e: BaseException) -> str:
    """map an exception escaping the public API to the small enum the driver uses"""
    from pyshacl.errors import ConstraintLoadError, ReportableRuntimeError, RuleLoadError, ShapeLoadError, ValidationFailure

    if isinstance(e, ShapeLoadError):
        return "ShapeLoadError"
    if isinstance(e, ConstraintLoadError):
        return "ConstraintLoadError"
    if isinstance(e, RuleLoadError):
        return "RuleLoadError"
    if isinstance(e, ValidationFailure):
        return "ValidationFailure"
    if isinstance(e, ReportableRuntimeError):
        return "ReportableRuntimeError"
    if isinstance(e, NotImplementedError):
        return "NotImplementedError"
    return "raw:" + type(e).__name__


def exc_detail(e: BaseException) -> str:
    fam = exc_family(e)
    if fam == "ReportableRuntimeError":
        m = str(getattr(e, "message", e))
        if "depth is too much" in m:
            return fam + ":tooDeep"
        if "Validation path too deep" in m:
            return fam + ":pathTooDeep"
    return fam


def report_results(rg: Graph):
    """top-level results of a report graph as dicts (terms), with nested details"""
    reports = list(rg.subjects(RDF.type, SH.ValidationReport))
    out = []
    if len(reports) != 1:
        return None
    top = list(rg.objects(reports[0], SH.result))
    for r in top:
        out.append(result_tuple(rg, r))
    return out


def result_tuple(rg: Graph, r):
    def one(p):
        vs = list(rg.objects(r, p))
        return vs
    return {
        "node": r,
        "focus": one(SH.focusNode),
        "value": one(SH.value),
        "path": one(SH.resultPath),
        "component": one(SH.sourceConstraintComponent),
        "shape": one(SH.sourceShape),
        "severity": one(SH.resultSeverity),
        "messages": sorted(one(SH.resultMessage), key=lambda t: wire.tkey(t)),
        "detail": [result_tuple(rg, d) for d in rg.objects(r, SH.detail)],
        "source": one(SH.sourceConstraint),
        "types": one(RDF.type),
    }


def rkey(res, with_detail=True, with_messages=False):
    """canonical hashable key of a result dict (single-valued fields assumed; multi-valued are joined)"""
    def k(vs):
        return "|".join(sorted(wire.tkey(v) for v in vs)) if vs else "-"
    key = (k(res["focus"]), k(res["value"]), k(res["path"]), k(res["component"]), k(res["shape"]), k(res["severity"]))
    if with_messages:
        key = key + (k(res["messages"]),)
    if with_detail:
        key = key + (tuple(sorted(rkey(d, with_detail, with_messages) for d in res["detail"])),)
    return key


def graph_from_triples(triples, bind=True) -> Graph:
    g = Graph()
    if bind:
        g.bind("ex", EX)
        g.bind("sh", SH)
    for t in triples:
        g.add(t)
    return g


def ttl(g: Graph) -> str:
    return g.serialize(format="turtle")


def nt(g: Graph) -> str:
    return g.serialize(format="nt")


class Hang(Exception):
    """the call under test did not return within its wall-clock limit"""


import contextlib
import signal


@contextlib.contextmanager
def time_limit(seconds):
    """raise Hang in the main thread when the body runs longer than `seconds` (the loops under test are pure python)"""
    def on_alarm(signum, frame):
        raise Hang("no return within %ss" % seconds)
    old = signal.signal(signal.SIGALRM, on_alarm)
    signal.setitimer(signal.ITIMER_REAL, seconds)
    try:
        yield
    finally:
        signal.setitimer(signal.ITIMER_REAL, 0)
        signal.signal(signal.SIGALRM, old)
