"""Property-path ASTs: generation, RDF encoding, SPARQL rendering."""
from rdflib import BNode, Graph, Literal, URIRef
from rdflib.collection import Collection
from rdflib.namespace import RDF

from common import SH

# AST: ('p', iri) | ('inv', a) | ('star', a) | ('plus', a) | ('opt', a) | ('seq', [a...]) | ('alt', [a...])
UNARY = ("inv", "star", "plus", "opt")


def enum_paths(preds, depth):
    """all paths of nesting depth <= depth with sequences/alternatives of 2 members (depth 1: also 3)"""
    if depth == 0:
        return [("p", p) for p in preds]
    sub = enum_paths(preds, depth - 1)
    out = list(sub)
    for u in UNARY:
        for a in sub:
            out.append((u, a))
    for k in ("seq", "alt"):
        for a in sub:
            for b in sub:
                out.append((k, [a, b]))
    return out


def rand_path(rng, preds, depth):
    if depth <= 0 or rng.random() < 0.18:
        return ("p", rng.choice(preds))
    k = rng.choice(("inv", "star", "plus", "opt", "seq", "alt", "seq", "alt", "inv"))
    if k in UNARY:
        return (k, rand_path(rng, preds, depth - 1))
    n = rng.choice((2, 2, 3))
    return (k, [rand_path(rng, preds, depth - 1) for _ in range(n)])


def path_depth(a):
    if a[0] == "p":
        return 0
    if a[0] in UNARY:
        return 1 + path_depth(a[1])
    return 1 + max(path_depth(x) for x in a[1])


_ctr = [0]


def _bn(prefix="pb"):
    _ctr[0] += 1
    return BNode("%s%d" % (prefix, _ctr[0]))


def encode(g: Graph, a):
    """add the SHACL encoding of path AST `a` to g and return its node"""
    k = a[0]
    if k == "p":
        return a[1]
    if k == "seq":
        members = [encode(g, x) for x in a[1]]
        head = _bn()
        Collection(g, head, members)
        return head
    n = _bn()
    if k == "alt":
        members = [encode(g, x) for x in a[1]]
        head = _bn()
        Collection(g, head, members)
        g.add((n, SH.alternativePath, head))
    elif k == "inv":
        g.add((n, SH.inversePath, encode(g, a[1])))
    elif k == "star":
        g.add((n, SH.zeroOrMorePath, encode(g, a[1])))
    elif k == "plus":
        g.add((n, SH.oneOrMorePath, encode(g, a[1])))
    elif k == "opt":
        g.add((n, SH.zeroOrOnePath, encode(g, a[1])))
    else:
        raise ValueError(k)
    return n


def sparql(a) -> str:
    """fully parenthesised SPARQL 1.1 rendering (reference rendering, not the code's)"""
    k = a[0]
    if k == "p":
        return "<%s>" % a[1]
    if k == "seq":
        return "(" + "/".join(sparql(x) for x in a[1]) + ")"
    if k == "alt":
        return "(" + "|".join(sparql(x) for x in a[1]) + ")"
    if k == "inv":
        return "^(" + sparql(a[1]) + ")"
    if k == "star":
        return "(" + sparql(a[1]) + ")*"
    if k == "plus":
        return "(" + sparql(a[1]) + ")+"
    if k == "opt":
        return "(" + sparql(a[1]) + ")?"
    raise ValueError(k)


def show(a) -> str:
    k = a[0]
    if k == "p":
        return str(a[1]).rsplit("/", 1)[-1]
    if k == "seq":
        return "(" + "/".join(show(x) for x in a[1]) + ")"
    if k == "alt":
        return "(" + "|".join(show(x) for x in a[1]) + ")"
    if k == "inv":
        return "^" + show(a[1])
    return show(a[1]) + {"star": "*", "plus": "+", "opt": "?"}[k]


def cost(a) -> int:
    """the code's own recursion measure (Lean `Path.depth`): one level per sequence cell, one per
    unary / alternative node, none per alternative member"""
    k = a[0]
    if k == "p":
        return 0
    if k in UNARY:
        return 1 + cost(a[1])
    if k == "alt":
        return 1 + max(cost(x) for x in a[1])
    d = 0
    for x in reversed(a[1]):   # cells from the last to the first
        d = max(cost(x), d) + 1
    return d
