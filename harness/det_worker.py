"""Worker for C09: one validation per input line, in a process started with its own PYTHONHASHSEED.

stdin : JSON lines {"id", "sg": [nt lines in insertion order], "dg": [...], "prefixes_sg": {p: ns}, "prefixes_dg": {...}, "kw": {...}}
stdout: JSON lines {"id", "outcome": canonical}
"""
import json
import sys
import warnings

warnings.filterwarnings("ignore")
import os

sys.path.insert(0, os.path.dirname(os.path.abspath(__file__)))
sys.path.insert(0, os.environ.get("VERIF_REPO", "/repo"))
import logging

logging.disable(logging.CRITICAL)
import rdflib
from rdflib import Graph, Literal
from rdflib.compare import to_canonical_graph

import pyshacl
from common import SH, exc_detail


def build(lines, prefixes):
    g = Graph()
    for p, ns in prefixes.items():
        g.bind(p, ns, override=True, replace=True)
    for ln in lines:
        tmp = Graph()
        tmp.parse(data=ln, format="nt")
        for t in tmp:
            g.add(t)
    return g


def build_keep_bnodes(lines, prefixes):
    # N-Triples parsing relabels blank nodes per document: parse all lines as one document, then re-add in order
    g = Graph()
    for p, ns in prefixes.items():
        g.bind(p, ns, override=True, replace=True)
    doc = Graph()
    doc.parse(data="\n".join(lines), format="nt")
    # keep the requested insertion order: match each line to its parsed triple through a per-line parse with shared bnode map
    from rdflib.plugins.parsers.ntriples import W3CNTriplesParser
    class Sink:
        def __init__(self): self.out = []
        def triple(self, s, p, o): self.out.append((s, p, o))
    sink = Sink()
    parser = W3CNTriplesParser(sink)
    # the labels of the document become the identifiers of the blank nodes (as BNode("label") does, and as formats that keep
    # identifiers do): a relabelling of the document is then a relabelling of the graph the validator sees
    import re
    from rdflib import BNode
    bmap = {}
    for ln in lines:
        for lab in re.findall(r"(?:^|\s)_:([A-Za-z0-9]+)", ln):
            bmap.setdefault(lab, BNode(lab))
    for ln in lines:
        parser.parsestring(ln + "\n", bnode_context=bmap)
    for t in sink.out:
        g.add(t)
    return g


def canonical(sg, conforms, rg):
    declared = set(sg.objects(None, SH.message))
    h = Graph()
    for s, p, o in rg:
        if p == SH.resultMessage and o not in declared:
            continue
        # RDF 1.1: language tags compare case-insensitively, "x"@en and "x"@EN are one term (rdflib keeps one of the two
        # spellings in a set, whichever was inserted first) — which spelling is reported is not an observable of the property
        if isinstance(o, Literal) and o.language:
            o = Literal(str(o), lang=o.language.lower())
        h.add((s, p, o))
    return {"conforms": conforms, "graph": sorted(to_canonical_graph(h).serialize(format="nt").splitlines())}


for line in sys.stdin:
    line = line.strip()
    if not line:
        continue
    job = json.loads(line)
    try:
        sg = build_keep_bnodes(job["sg"], job.get("prefixes_sg", {}))
        dg = build_keep_bnodes(job["dg"], job.get("prefixes_dg", {}))
        conforms, rg, text = pyshacl.validate(dg, shacl_graph=sg, **job.get("kw", {}))
        if isinstance(rg, Graph):
            out = canonical(sg, conforms, rg)
        else:
            out = {"failure": "ValidationFailure"}
    except BaseException as e:  # noqa
        out = {"raised": exc_detail(e)}
    print(json.dumps({"id": job["id"], "outcome": out}), flush=True)
