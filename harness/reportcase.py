"""Correspondence (A) for the report assembly: the model's `report` op (Report.lean: create_validation_report,
make_v_result, clone_blank_node / clone_list) against the report graph and report text validate() really returned.

Graphs are compared up to blank-node labels (rdflib isomorphism) after (1) lower-casing language tags (the wire carries them
lower-cased, and rdflib's canonical hashing is confused by two spellings of one tag) and (2) dropping the sh:resultMessage
values of results whose source shape / source constraint declares no sh:message (auto-generated wording is outside the model).
The text is compared on what the model carries: the header lines, and the number of top-level result blocks.
"""
import re

from rdflib import BNode, Graph, Literal
from rdflib.compare import isomorphic, to_isomorphic

import vcase
import wire
from common import SH


def model_line(cid, sg, dg, opts=None, **kw):
    line = vcase.model_line(cid, sg, dg, opts, **kw)
    head, sep, rest = line.partition(" validate ")
    assert sep and " " not in head, line[:80]
    return head + " report " + rest


def parse_reply(reply):
    """('err', cls) | ('ok', conforms, n_results, Graph, text) | ('bad', reply)"""
    toks = reply.split(" ")
    if toks[0] == "err":
        return ("err", toks[1])
    if toks[0] != "ok" or toks[3] != "G":
        return ("bad", reply[:200])
    conforms, n, k = toks[1] == "1", int(toks[2]), int(toks[4])
    g = Graph()

    def node(tok):
        if tok.startswith("F:") or tok.startswith("C:"):
            return BNode("model_" + tok.replace(":", "_").replace(".", "_"))
        return wire.parse_term(tok)
    i = 5
    for _ in range(k):
        g.add((node(toks[i]), wire.parse_term(toks[i + 1]), node(toks[i + 2])))
        i += 3
    assert toks[i] == "T", toks[i : i + 2]
    return ("ok", conforms, n, g, wire.unesc(toks[i + 1]))


def _low(t):
    if isinstance(t, Literal) and t.language and t.language != t.language.lower():
        return Literal(str(t), lang=t.language.lower())
    return t


def normalise(rg, dms):
    """lower-cased language tags; sh:resultMessage kept only where a message is declared"""
    h = Graph()
    keep_msgs = set()
    for r in rg.subjects(SH.resultMessage, None):
        owners = list(rg.objects(r, SH.sourceShape)) + list(rg.objects(r, SH.sourceConstraint))
        if any(wire.tkey(o) in dms for o in owners):
            keep_msgs.add(r)
    for s, p, o in rg:
        if p == SH.resultMessage and s not in keep_msgs:
            continue
        h.add((_low(s), p, _low(o)))
    return h


def skeleton(g):
    """multiset of triples with blank nodes replaced by a marker: a cheap explanation when two graphs are not isomorphic"""
    from collections import Counter

    def k(t):
        return "_" if isinstance(t, BNode) else wire.tkey(t)
    return Counter((k(s), wire.tkey(p), k(o)) for s, p, o in g)


def compare(code, parsed, sg):
    """None when model and code agree on the report, else a description. `code` is vcase.run_code's tuple."""
    if code[0] == "err":
        if parsed[0] != "err" or parsed[1] != code[1]:
            return "code raised %s, model %s" % (code[1], parsed[1] if parsed[0] == "err" else "returned a report")
        return None
    if code[0] != "ok":
        return "code returned a malformed report"
    if parsed[0] != "ok":
        return "code returned a report, model %s" % (parsed[1],)
    _, conforms, _res, rg, text = code
    _, mconf, mn, mg, mtext = parsed
    if conforms != mconf:
        return "verdict: code %s model %s" % (conforms, mconf)
    dms = vcase.declared_msg_shapes(sg)
    a, b = normalise(rg, dms), normalise(mg, dms)
    if len(a) != len(b) or not isomorphic(a, b):
        sa, sb = skeleton(a), skeleton(b)
        return "report graphs differ (%d vs %d triples): only in code %s ; only in model %s" % (
            len(a), len(b), list((sa - sb).elements())[:4], list((sb - sa).elements())[:4])
    if not text.startswith(mtext):
        return "report text header: code %r model %r" % (text[:80], mtext[:80])
    blocks = re.findall(r"^(?:Constraint Violation|Validation Result) in \w+ \(", text[len(mtext):], re.M)
    if len(blocks) != mn:
        return "report text has %d top-level result blocks, model %d results" % (len(blocks), mn)
    return None
